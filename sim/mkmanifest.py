#!/usr/bin/env python3
# Writes /verif/MANIFEST.json (kept in a script so that the long texts stay readable).
import json
NA = {
 "C01": "output tokenisation is a pure function of (template text, data): no schedule, clock, I/O fault or history enters it, so a simulator has nothing to vary (DESIGN §6)",
 "C02": "where untrusted strings land and which scheme a URL has is a pure function of (template text, data); its one order-dependent failure mode is C06's and is caught there (known finding F6)",
 "C03": "a (safe type x context x contents) matrix over pure sanitizer functions: no state, schedule or fault",
 "C04": "accept/reject of (element, attribute) pairs is a finite table lookup; exhaustive enumeration is the right tool and that is not simulation",
 "C10": "HTMLEscaped/HTMLConcat are pure functions of a byte string",
 "C11": "URLSanitized is a pure function of a string",
 "C12": "URLSetSanitized is a pure function of a string",
 "C13": "the TrustedResourceURL builders are pure functions of their arguments; the clause about map iteration order is settled by the code sorting keys",
 "C14": "prefix validation and normalisation are pure functions of (static prefix, data)",
 "C15": "StyleFromProperties is a pure function of a struct of strings",
 "C16": "CSSRule is a pure function of (selector, style)",
 "C17": "ScriptFromDataAndConstant is a pure function of (name, data, script); marshaler callbacks are ordinary inputs, not faults",
 "C18": "the Identifier constructors are pure functions of a string",
 "C19": "'does not compile' is decided by the Go type checker on client programs: there is no execution to simulate",
 "C20": "TrustedSourceFromConstantDir only joins and cleans strings; it never touches the disk",
}
common_note = ("Sampling, not proof. Trusted: the Go toolchain (go1.23.5) and race detector; the AST instrumenter (sim/instrument) preserves behaviour "
  "(the pinned suite is run on the instrumented copy by setup); output oracles compare the implementation with itself in a simpler situation "
  "(fresh twin set, lock-step twin, sequential replay), so they decide independence of history/schedule/faults, not safety of the fresh output.")
checks = {
 "C05": ("deterministic simulation: seeded API histories (1-3 simulated goroutines) over sets with failing members, writer/callback fault injection; sticky-failure reference model from fresh twin sets",
   "exploration", "§5 C05",
   "Seeded search over call histories (Execute*, ExecuteTemplate*, Lookup, New, Clone, Templates) on generated template sets containing templates whose contextual analysis fails in each way the statement names, "
   "with injected writer/callback/sanitizer faults and, in a quarter of the runs, several simulated goroutines. Invariants per call: a template that fails on a fresh twin set returns an error, causes no Write and runs no callback; Execute*ToHTML returns zero HTML with any error. "
   "Exploration is the right level: the property quantifies over unbounded histories and programs, so only sampling with a reference model is feasible."),
 "C06": ("deterministic simulation: seeded permutations/repetitions of executions with injected faults, each call compared with the same call on a fresh twin set (differential, map-order salted)",
   "exploration", "§5 C06",
   "Every Execute*/ExecuteTemplate* call of a generated history (permutations and repetitions over all members of sets whose helpers are shared across contexts, adversarial data, aborted executions) must produce exactly the bytes and error/no-error of the same call on a freshly built identical set; "
   "after a fault-aborted call the identical un-faulted call must again equal the twin. Map iteration order is a simulated, salted dimension."),
 "C08": ("deterministic simulation: seeded histories mixing definitions, clones and executions after failures, disk/writer/callback faults, 1-3 simulated goroutines; oracle = no panic, no deadlock (wait-for graph), bounded steps per call",
   "exploration", "§5 C08",
   "All workloads and fault kinds of the other checks plus texts outside the core grammar (break/continue, comments, malformed HTML, byte-level mutations) run inside histories that continue after failed calls (syntax errors, ParseFS dying on file 2 of 3, failed analysis, writer faults). "
   "A panic recovered at an API boundary, a deadlock found by the simulator's scheduler, a call exceeding its step budget, an injected fault that reaches the library as an error but ends in a nil error, or a text that text/template's parser rejects but a Parse* call accepts is a violation."),
 "C07": ("deterministic simulation: seeded interleavings of New/Parse*/Clone/Lookup/Templates/Execute* over a set and its clones with simulated-disk faults; freeze/lineage reference model and lock-step twin worlds",
   "exploration", "§5 C07",
   "Histories over a root set and up to two (transitive) clones through every Parse entry point (function and method forms, simulated disk). Checked: every Parse* after the first execution fails; outputs equal a lock-step twin that skipped the refused parses; "
   "results on the original equal a world without the clone operations and vice versa; clones equal a fresh set built from the definitions they inherited plus their own; Clone after execution fails."),
 "C09": ("deterministic simulation: seeded goroutine schedules over instrumented lock/yield points; schedule-transparent Go race detector + porcupine linearizability check against the sequential implementation",
   "exploration", "§5 C09",
   "2-4 simulated goroutines issue exactly the calls the statement lists against one fully defined set while a seeded scheduler decides every interleaving at lock operations, function entries, loop heads, writes and callbacks of safehtml/template and text/template. "
   "Race-build runs report any conflicting accesses the library's own locks do not order (the scheduler's hand-over is hidden from the detector); every history is checked with porcupine against the implementation run sequentially (bytes, error/no error, kind of error, listings as multisets)."),
}
import sys
claimed = sys.argv[1:] or ["C05","C06","C08"]
m = {
 "version": 1,
 "setup_cmd": "./setup.sh",
 "hooks": {
   "guard": "verif",
   "enable": "no hook is committed to /repo: every check copies /repo's working tree to a scratch directory, rewrites package template there with sim/instrument (yields at function entries, loop heads and shared-state statements, lock and sync.Once hand-off, map-order and file-system seams; rules R1-R6 of DESIGN §3.2), adds zz_verif_*.go files guarded by //go:build verif, and builds the harness against that copy with -tags verif and a build overlay for GOROOT text/template",
   "baseline_off_cmd": "cd /repo && GOFLAGS=-mod=mod GOPROXY=off GOSUMDB=off GOTOOLCHAIN=local go test -json -vet=off -count=1 -timeout 25m ./...",
   "source_commits": [],
   "add_only": True,
 },
 "engines": [
   {"name": "simharness", "path": "sim/harness", "serves_properties": claimed, "kind_free_text": "seeded case generator, cooperative scheduler (sim/simrt), fault-injecting writer/disk/callbacks, reference models, structural minimiser, replay"},
   {"name": "instrument", "path": "sim/instrument", "serves_properties": claimed, "kind_free_text": "go/ast + go/types source rewriter inserting scheduler seams into a scratch copy of the current tree"},
 ],
 "checks": [],
 "not_applicable": [],
 "notes": "Technique family: deterministic simulation with fault injection. Five properties have schedules, histories or faults to simulate (C05-C09); fifteen are pure functions or compile-time properties and are listed under not_applicable with the reason. Genuine defects found are repaired by 'fix:' commits in /repo or listed in known_findings.json (see DESIGN.md §7).",
}
for pid in claimed:
    tech, cat, ref, text = checks[pid]
    m["checks"].append({
      "property_id": pid,
      "quick_cmd": "./check %s quick" % pid,
      "thorough_cmd": "./check %s thorough" % pid,
      "evidence_file": "evidence/%s.json" % pid,
      "replay_cmd_template": "./check %s --replay {path}" % pid,
      "engine": "simharness",
      "level_claimed": {"category": cat, "text": text, "design_ref": ref},
      "level_note": common_note,
      "technique": tech,
    })
for pid in ["C07","C09"]:
    if pid not in claimed:
        m["not_applicable"].append({"property_id": pid, "reason": "applicable (deterministic simulation, DESIGN §5) but its check is not finished yet at this commit, so it is not claimed"})
for pid, r in NA.items():
    m["not_applicable"].append({"property_id": pid, "reason": r})
json.dump(m, open("/verif/MANIFEST.json","w"), indent=1)
print("MANIFEST.json written; claimed:", claimed)
