// Command automutate enumerates simple syntactic mutants of a Go source file
// (statement deletion, condition negation, operator swaps) and writes the k-th.
//
//	automutate -file f.go -funcs a,b,c -list          prints the number of mutation points and a description of each
//	automutate -file f.go -funcs a,b,c -k 17 -out g.go writes mutant 17
package main

import (
	"flag"
	"fmt"
	"go/ast"
	"go/parser"
	"go/token"
	"os"
	"strings"
)

type mut struct {
	off, end int
	repl     string
	desc     string
}

func main() {
	file := flag.String("file", "", "")
	funcs := flag.String("funcs", "", "comma separated function names (empty = all)")
	list := flag.Bool("list", false, "")
	k := flag.Int("k", -1, "")
	out := flag.String("out", "", "")
	flag.Parse()
	src, err := os.ReadFile(*file)
	if err != nil {
		panic(err)
	}
	fset := token.NewFileSet()
	f, err := parser.ParseFile(fset, *file, src, parser.ParseComments)
	if err != nil {
		panic(err)
	}
	want := map[string]bool{}
	for _, n := range strings.Split(*funcs, ",") {
		if n != "" {
			want[n] = true
		}
	}
	off := func(p token.Pos) int { return fset.Position(p).Offset }
	text := func(a, b token.Pos) string { return string(src[off(a):off(b)]) }
	var muts []mut
	for _, d := range f.Decls {
		fd, ok := d.(*ast.FuncDecl)
		if !ok || fd.Body == nil {
			continue
		}
		if len(want) > 0 && !want[fd.Name.Name] {
			continue
		}
		fn := fd.Name.Name
		ast.Inspect(fd.Body, func(n ast.Node) bool {
			line := func(p token.Pos) int { return fset.Position(p).Line }
			switch n := n.(type) {
			case *ast.BlockStmt:
				for _, st := range n.List {
					switch s := st.(type) {
					case *ast.ExprStmt:
						muts = append(muts, mut{off(s.Pos()), off(s.End()), "", fmt.Sprintf("%s:%d delete call `%s`", fn, line(s.Pos()), oneLine(text(s.Pos(), s.End())))})
					case *ast.AssignStmt:
						if s.Tok == token.ASSIGN || s.Tok == token.ADD_ASSIGN {
							muts = append(muts, mut{off(s.Pos()), off(s.End()), "", fmt.Sprintf("%s:%d delete assignment `%s`", fn, line(s.Pos()), oneLine(text(s.Pos(), s.End())))})
						}
					case *ast.IncDecStmt:
						muts = append(muts, mut{off(s.Pos()), off(s.End()), "", fmt.Sprintf("%s:%d delete `%s`", fn, line(s.Pos()), oneLine(text(s.Pos(), s.End())))})
					case *ast.DeferStmt:
						muts = append(muts, mut{off(s.Pos()), off(s.End()), "", fmt.Sprintf("%s:%d delete `%s`", fn, line(s.Pos()), oneLine(text(s.Pos(), s.End())))})
					case *ast.IfStmt:
						if s.Else == nil && s.Init == nil {
							// drop the whole guarded block / make it unconditional
							muts = append(muts, mut{off(s.Pos()), off(s.End()), "", fmt.Sprintf("%s:%d delete whole `if %s {...}`", fn, line(s.Pos()), oneLine(text(s.Cond.Pos(), s.Cond.End())))})
						}
					}
				}
			case *ast.IfStmt:
				c := text(n.Cond.Pos(), n.Cond.End())
				muts = append(muts, mut{off(n.Cond.Pos()), off(n.Cond.End()), "!(" + c + ")", fmt.Sprintf("%s:%d negate `if %s`", fn, line(n.Pos()), oneLine(c))})
				muts = append(muts, mut{off(n.Cond.Pos()), off(n.Cond.End()), "false && (" + c + ")", fmt.Sprintf("%s:%d never `if %s`", fn, line(n.Pos()), oneLine(c))})
			case *ast.BasicLit:
				if n.Kind == token.INT {
					switch n.Value {
					case "0":
						muts = append(muts, mut{off(n.Pos()), off(n.End()), "1", fmt.Sprintf("%s:%d literal 0 -> 1", fn, line(n.Pos()))})
					case "1":
						muts = append(muts, mut{off(n.Pos()), off(n.End()), "0", fmt.Sprintf("%s:%d literal 1 -> 0", fn, line(n.Pos()))})
						muts = append(muts, mut{off(n.Pos()), off(n.End()), "2", fmt.Sprintf("%s:%d literal 1 -> 2", fn, line(n.Pos()))})
					case "2", "4":
						muts = append(muts, mut{off(n.Pos()), off(n.End()), "1", fmt.Sprintf("%s:%d literal %s -> 1", fn, line(n.Pos()), n.Value)})
					}
				}
			case *ast.Ident:
				if n.Name == "true" {
					muts = append(muts, mut{off(n.Pos()), off(n.End()), "false", fmt.Sprintf("%s:%d true -> false", fn, line(n.Pos()))})
				} else if n.Name == "false" {
					muts = append(muts, mut{off(n.Pos()), off(n.End()), "true", fmt.Sprintf("%s:%d false -> true", fn, line(n.Pos()))})
				}
			case *ast.BinaryExpr:
				var r string
				switch n.Op {
				case token.LAND:
					r = "||"
				case token.LOR:
					r = "&&"
				case token.EQL:
					r = "!="
				case token.NEQ:
					r = "=="
				case token.LSS:
					r = "<="
				case token.GTR:
					r = ">="
				case token.ADD:
					r = "-"
				case token.SUB:
					r = "+"
				case token.LEQ:
					r = "<"
				case token.GEQ:
					r = ">"
				}
				if r != "" {
					muts = append(muts, mut{off(n.OpPos), off(n.OpPos) + len(n.Op.String()), r, fmt.Sprintf("%s:%d `%s` -> `%s` in `%s`", fn, line(n.Pos()), n.Op, r, oneLine(text(n.Pos(), n.End())))})
				}
			}
			return true
		})
	}
	if *list {
		for i, m := range muts {
			fmt.Printf("%d\t%s\n", i, m.desc)
		}
		return
	}
	if *k < 0 || *k >= len(muts) {
		fmt.Fprintln(os.Stderr, "k out of range", len(muts))
		os.Exit(2)
	}
	m := muts[*k]
	res := string(src[:m.off]) + m.repl + string(src[m.end:])
	if err := os.WriteFile(*out, []byte(res), 0o644); err != nil {
		panic(err)
	}
	fmt.Println(m.desc)
}

func oneLine(s string) string {
	s = strings.Join(strings.Fields(s), " ")
	if len(s) > 90 {
		s = s[:90] + "…"
	}
	return s
}
