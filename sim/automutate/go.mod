module verif/automutate

go 1.23
