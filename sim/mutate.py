#!/usr/bin/env python3
"""Sensitivity wave: deliberate breaking (and benign) edits of google/safehtml.

Each mutant is applied to a scratch git worktree of /repo's HEAD (never to
/repo), must compile and pass the pinned suite, and is then given to the checks
named for it through VERIF_REPO.  Breaking mutants must be reported (exit 1)
by at least one of their checks; benign mutants must stay silent (exit 0).

usage: mutate.py [-k substring] [--tier quick] [--checks C05,C06]   (results: stdout + sim/mutants_result.json)
"""
import json, os, subprocess, sys, shutil, time, argparse

VERIF = os.path.dirname(os.path.dirname(os.path.abspath(__file__)))
ENV = dict(os.environ, GOFLAGS="-mod=mod", GOPROXY="off", GOSUMDB="off", GOTOOLCHAIN="local")
T = "template/template.go"
E = "template/escape.go"

# (name, kind, file, old, new, checks expected to catch it)
M = [
 # ---- C05
 ("m05a-no-sticky-error", "break", E, "\t\t\tt.escapeErr = err\n", "", ["C05"]),
 ("m05b-escape-ignores-sticky", "break", T, "\t} else if t.escapeErr != errEscapeOK {\n\t\treturn t.escapeErr\n\t}\n", "\t}\n", ["C05"]),
 ("m05c-lookup-ignores-sticky", "break", T, "\tif tmpl.escapeErr != nil && tmpl.escapeErr != errEscapeOK {\n\t\treturn nil, tmpl.escapeErr\n\t}\n", "", ["C05"]),
 ("m05d-nontext-end-accepted", "break", E, "\t} else if c.state != stateText {\n", "\t} else if false && c.state != stateText {\n", ["C05"]),
 ("m05e-merge-unconditionally", "break", E, "\tok := filter != nil && filter(&e1, c)\n\tif ok {", "\tok := filter != nil && filter(&e1, c)\n\tif true {", ["C05", "C06"]),
 ("m05f-tohtml-returns-partial", "break", T, "\tif err := t.Execute(&buf, data); err != nil {\n\t\treturn safehtml.HTML{}, err\n\t}", "\tif err := t.Execute(&buf, data); err != nil {\n\t\treturn uncheckedconversions.HTMLFromStringKnownToSatisfyTypeContract(buf.String()), err\n\t}", ["C05"]),
 ("m05g-memo-keeps-failed", "break", E, "\tif c1.state == stateError {\n\t\tdelete(e.output, t.Name())\n\t} else {\n\t\te.output[t.Name()] = c1\n\t}\n", "\tif c1.state != stateError {\n\t\te.output[t.Name()] = c1\n\t}\n", ["C05", "C06"]),
 ("b05a-keep-tree-on-failure", "benign", E, "\t\t\tt.Tree = nil\n", "", ["C05", "C06", "C08"]),
 ("b05b-error-text", "benign", E, "ends in a non-text context: %+v", "does not end in the text context: %+v", ["C05", "C06"]),
 # ---- C06
 ("m06a-edits-not-reset", "break", E, "\te.actionNodeEdits = make(map[*parse.ActionNode][]string)\n", "", ["C06"]),
 ("m06b-reanalyse-every-time", "break", T, "\tif t.escapeErr == nil {\n\t\tif t.Tree == nil {", "\tif t.escapeErr == nil || t.escapeErr == errEscapeOK {\n\t\tif t.Tree == nil {", ["C06"]),
 ("m06c-mangle-drops-attr", "break", E, "\tif c.attr.name != \"\" {\n\t\ts += \"_\" + c.attr.String()\n\t}\n", "", ["C06", "C05"]),
 ("m06d-memo-unmangled", "break", E, "\tif out, ok := e.output[dname]; ok {", "\tif out, ok := e.output[name]; ok {", ["C06", "C05"]),
 ("m06e-derive-from-rewritten-tree", "break", E, "\t\t\tsrc := e.ns.pristine[name]\n\t\t\tif src == nil {\n\t\t\t\tsrc = t.Tree\n\t\t\t}\n", "\t\t\tsrc := t.Tree\n", ["C06"]),
 ("m06f-memo-assumed-context", "break", E, "\t} else {\n\t\te.output[t.Name()] = c1\n\t}\n", "\t}\n", ["C06", "C05"]),
 ("m06g-mangle-drops-delim", "break", E, "\tif c.delim != 0 {\n\t\ts += \"_\" + c.delim.String()\n\t}\n", "", ["C06", "C05", "C08"]),
 ("b06a-templates-sorted", "benign", T, "\tfor _, v := range ns.set {\n\t\tm = append(m, v)\n\t}\n\treturn m\n", "\tfor _, v := range ns.set {\n\t\tm = append(m, v)\n\t}\n\tfor i := 1; i < len(m); i++ {\n\t\tfor j := i; j > 0 && m[j].Name() < m[j-1].Name(); j-- {\n\t\t\tm[j], m[j-1] = m[j-1], m[j]\n\t\t}\n\t}\n\treturn m\n", ["C05", "C06", "C07", "C09"]),
 # ---- C07
 ("m07a-parse-no-freeze-check", "break", T, "func (t *Template) Parse(text stringConstant) (*Template, error) {\n\tif err := t.checkCanParse(); err != nil {\n\t\treturn nil, err\n\t}\n", "func (t *Template) Parse(text stringConstant) (*Template, error) {\n", ["C07"]),
 ("m07b-parsefiles-no-freeze-check", "break", T, "func parseFiles(t *Template, readFile func(string) (string, []byte, error), filenames ...string) (*Template, error) {\n\tif err := t.checkCanParse(); err != nil {\n\t\treturn nil, err\n\t}\n", "func parseFiles(t *Template, readFile func(string) (string, []byte, error), filenames ...string) (*Template, error) {\n", ["C07"]),
 ("m07c-escape-does-not-freeze", "break", T, "\tdefer t.nameSpace.mu.Unlock()\n\tt.nameSpace.escaped = true\n\tif t.escapeErr == nil {", "\tdefer t.nameSpace.mu.Unlock()\n\tif t.escapeErr == nil {", ["C07"]),
 ("m07d-lookupescape-does-not-freeze", "break", T, "\tdefer t.nameSpace.mu.Unlock()\n\tt.nameSpace.escaped = true\n\ttmpl = t.set[name]", "\tdefer t.nameSpace.mu.Unlock()\n\ttmpl = t.set[name]", ["C07"]),
 ("m07e-freeze-only-on-success", "break", T, "\tt.nameSpace.escaped = true\n\ttmpl = t.set[name]\n\tif tmpl == nil {\n\t\treturn nil, fmt.Errorf(\"html/template: %q is undefined\", name)\n\t}", "\ttmpl = t.set[name]\n\tif tmpl == nil {\n\t\treturn nil, fmt.Errorf(\"html/template: %q is undefined\", name)\n\t}\n\tdefer func() {\n\t\tif err == nil {\n\t\t\tt.nameSpace.escaped = true\n\t\t}\n\t}()", ["C07"]),
 ("m07f-clone-shares-trees", "break", T, "\t\tx.Tree = x.Tree.Copy()\n", "", ["C07", "C06"]),
 ("m07g-clone-shares-escaper-memo", "break", T, "\tns.esc = makeEscaper(ns)\n\tret := &Template{", "\tns.esc = makeEscaper(ns)\n\tns.esc.output = t.nameSpace.esc.output\n\tret := &Template{", ["C07"]),
 ("m07h-clone-after-exec-allowed", "break", T, "\t\tif src == nil || src.escapeErr != nil {\n", "\t\tif src == nil {\n", ["C07"]),
 ("m07i-clone-receiver-after-exec-allowed", "break", T, "\tif t.escapeErr != nil {\n\t\treturn nil, fmt.Errorf(\"html/template: cannot Clone %q after it has executed\", t.Name())\n\t}\n\ttextClone", "\ttextClone", ["C07"]),
 ("m07j-clone-shares-pristine", "break", T, "\tns.esc = makeEscaper(ns)\n\tret := &Template{", "\tns.esc = makeEscaper(ns)\n\tns.pristine = t.nameSpace.pristine\n\tret := &Template{", ["C07"]),
 ("b07a-parseglob-no-freeze-check", "benign", T, "func parseGlob(t *Template, pattern string) (*Template, error) {\n\tif err := t.checkCanParse(); err != nil {\n\t\treturn nil, err\n\t}\n", "func parseGlob(t *Template, pattern string) (*Template, error) {\n", ["C07", "C08"]),
 # ---- C08
 ("m08a-lookup-nil-unchecked", "break", T, "\tif tmpl == nil {\n\t\treturn nil, fmt.Errorf(\"html/template: %q is undefined\", name)\n\t}\n", "", ["C08"]),
 ("m08b-escape-nil-tree-unchecked", "break", T, "\t\tif t.Tree == nil {\n\t\t\treturn fmt.Errorf(\"template: %q is an incomplete or empty template\", t.Name())\n\t\t}\n", "", ["C08"]),
 ("m08c-templates-self-deadlock", "break", T, "\tfor _, v := range ns.set {\n\t\tm = append(m, v)\n\t}", "\tfor k := range ns.set {\n\t\tm = append(m, t.Lookup(k))\n\t}", ["C08"]),
 ("m08e-escapelist-nil-unchecked", "break", E, "\tif n == nil {\n\t\treturn c\n\t}\n\tfor _, m := range n.Nodes {", "\tfor _, m := range n.Nodes {", ["C08"]),
 ("m08f-treeless-callee-unchecked", "break", E, "\tif t == nil || t.Tree == nil {\n", "\tif t == nil {\n", ["C08"]),
 ("m08g-unknown-node-panics", "break", E, "\treturn context{\n\t\tstate: stateError,\n\t\terr:   errorf(ErrEscapeAction, n, 0, \"escaping %s is unimplemented\", n),\n\t}\n", "\tpanic(\"escaping \" + n.String() + \" is unimplemented\")\n", ["C08"]),
 ("m08h-nil-text-tree-on-failure", "break", E, "\t\t\tt.Tree = nil\n", "\t\t\tt.text.Tree = nil\n\t\t\tt.Tree = nil\n", ["C08", "C09"]),
 # ---- C09
 ("m09a-escape-unlocked", "break", T, "func (t *Template) escape() error {\n\tt.nameSpace.mu.Lock()\n\tdefer t.nameSpace.mu.Unlock()\n", "func (t *Template) escape() error {\n", ["C09"]),
 ("m09b-lookupescape-unlocked", "break", T, "func (t *Template) lookupAndEscapeTemplate(name string) (tmpl *Template, err error) {\n\tt.nameSpace.mu.Lock()\n\tdefer t.nameSpace.mu.Unlock()\n", "func (t *Template) lookupAndEscapeTemplate(name string) (tmpl *Template, err error) {\n", ["C09"]),
 ("m09c-ok-before-commit-outside-lock", "break", T, "\t\tif err := escapeTemplate(t, t.text.Root, t.Name()); err != nil {\n\t\t\treturn err\n\t\t}\n", "\t\tt.nameSpace.mu.Unlock()\n\t\terr := escapeTemplate(t, t.text.Root, t.Name())\n\t\tt.nameSpace.mu.Lock()\n\t\tif err != nil {\n\t\t\treturn err\n\t\t}\n", ["C09"]),
 ("m09d-lookup-lockfree", "break", T, "func (t *Template) Lookup(name string) *Template {\n\tt.nameSpace.mu.Lock()\n\tdefer t.nameSpace.mu.Unlock()\n", "func (t *Template) Lookup(name string) *Template {\n", ["C09"]),
 ("m09e-templates-lockfree", "break", T, "\tns := t.nameSpace\n\tns.mu.Lock()\n\tdefer ns.mu.Unlock()\n", "\tns := t.nameSpace\n", ["C09"]),
 ("m09f-marked-ok-before-commit", "break", E, "\ttmpl.esc.commit()\n\tif t := tmpl.set[name]; t != nil {\n\t\tt.escapeErr = errEscapeOK\n\t\tt.Tree = t.text.Tree\n\t}\n", "\tif t := tmpl.set[name]; t != nil {\n\t\tt.escapeErr = errEscapeOK\n\t\tt.Tree = t.text.Tree\n\t}\n\ttmpl.esc.commit()\n", ["C09"]),
 ("b09a-definedtemplates-locked", "benign", T, "func (t *Template) DefinedTemplates() string {\n\treturn t.text.DefinedTemplates()", "func (t *Template) DefinedTemplates() string {\n\tt.nameSpace.mu.Lock()\n\tdefer t.nameSpace.mu.Unlock()\n\treturn t.text.DefinedTemplates()", ["C09", "C08"]),
]


def sh(cmd, cwd=None, env=ENV, timeout=3600):
    p = subprocess.run(cmd, shell=True, cwd=cwd, env=env, stdout=subprocess.PIPE, stderr=subprocess.STDOUT, text=True, timeout=timeout)
    return p.returncode, p.stdout


def main():
    ap = argparse.ArgumentParser()
    ap.add_argument("-k", default="")
    ap.add_argument("--tier", default="quick")
    ap.add_argument("--checks", default="")
    ap.add_argument("--seed", default="1")
    ap.add_argument("--out", default=os.path.join(VERIF, "sim", "mutants_result.json"))
    a = ap.parse_args()
    results = []
    for name, kind, f, old, new, checks in M:
        if a.k and a.k not in name:
            continue
        if a.checks:
            checks = a.checks.split(",")
        wt = "/tmp/mut-" + name
        sh("git -C /repo worktree remove --force %s" % wt)
        shutil.rmtree(wt, ignore_errors=True)
        rc, out = sh("git -C /repo worktree add --detach %s HEAD" % wt)
        rec = {"name": name, "kind": kind, "checks": {}}
        try:
            p = os.path.join(wt, f)
            s = open(p).read()
            if s.count(old) != 1:
                rec["status"] = "pattern-not-found(%d)" % s.count(old)
                results.append(rec)
                print(name, rec["status"], flush=True)
                continue
            open(p, "w").write(s.replace(old, new))
            rc, out = sh("go build ./... && go test -vet=off -count=1 ./...", cwd=wt)
            if rc != 0:
                rec["status"] = "does-not-build-or-tests-fail"
                rec["detail"] = out[-600:]
                results.append(rec)
                print(name, rec["status"], out[-300:], flush=True)
                continue
            rec["status"] = "ok"
            caught = False
            for c in checks:
                t0 = time.time()
                env = dict(ENV, VERIF_REPO=wt, VERIF_SEED=a.seed)
                rc, out = sh("%s/check %s %s" % (VERIF, c, a.tier), env=env, cwd=VERIF)
                classes = sorted(set(l.split("class=")[1].split()[0] for l in out.splitlines() if l.startswith("violation class=")))
                rec["checks"][c] = {"rc": rc, "classes": classes, "s": round(time.time() - t0, 1)}
                if rc == 1:
                    caught = True
                    if kind == "break":
                        break
            rec["caught"] = caught
            verdict = "CAUGHT" if caught else "missed"
            if kind == "benign":
                verdict = "FALSE-ALARM" if caught else "silent(ok)"
            print("%-42s %-7s %-12s %s" % (name, kind, verdict, json.dumps(rec["checks"])), flush=True)
            results.append(rec)
        finally:
            sh("git -C /repo worktree remove --force %s" % wt)
            shutil.rmtree(wt, ignore_errors=True)
            sh("rm -f %s/replays/*.json" % VERIF)
    json.dump(results, open(a.out, "w"), indent=1)
    missed = [r["name"] for r in results if r.get("status") == "ok" and r["kind"] == "break" and not r.get("caught")]
    fa = [r["name"] for r in results if r.get("status") == "ok" and r["kind"] == "benign" and r.get("caught")]
    print("missed:", missed)
    print("false alarms:", fa)


if __name__ == "__main__":
    main()
