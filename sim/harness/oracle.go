package main

import (
	"bytes"
	"fmt"
	"strings"
	texttemplate "text/template"
)

// Each oracle is a pure function of the case: it executes it (and whatever
// twins it needs) and returns the violations found.

type checkResult struct {
	out   *Outcome
	viol  []*Violation
	tw    *twinner
	notes map[string]int // reach probes hit by this run
}

func (cr *checkResult) note(k string) {
	if cr.notes == nil {
		cr.notes = map[string]int{}
	}
	cr.notes[k]++
}

func (cr *checkResult) add(prop, class string, op int, sig, f string, a ...interface{}) {
	cr.viol = append(cr.viol, &Violation{Prop: prop, Class: class, OpID: op, Sig: sig, Detail: fmt.Sprintf(f, a...)})
}

func clip(s string) string {
	if len(s) > 160 {
		return s[:160] + "…"
	}
	return s
}

func hasFired(r *Result, prefix string) bool {
	for _, f := range r.Fired {
		if strings.HasPrefix(f, prefix) {
			return true
		}
	}
	return false
}

func abortingFault(r *Result) bool {
	for _, f := range r.Fired {
		if f != "write:slow" {
			return true
		}
	}
	return false
}

// checkTotal is the C08 oracle, also applied by every other check's runs
// (a panic is reported under C08 only).
func checkTotal(cr *checkResult, prop string) {
	o := cr.out
	for _, r := range o.flat() {
		if r.Panic != "" {
			top := firstFrame(r.Stack)
			cr.add(prop, "panic", r.OpID, "panic:"+panicSig(r.Panic)+"@"+top, "%s panicked: %s\n%s", r.Kind, clip(r.Panic), r.Stack)
		}
	}
	// "report problems through their error results": an injected fault that is
	// certain to have reached the library as an error (unreadable file, failed
	// open or read, failing callback, failed Write) must not end in a nil error.
	if prop == "C08" {
		for _, r := range o.flat() {
			if !r.Done || r.Aborted != "" || r.Panic != "" || r.Err != "" || r.Skipped != "" {
				continue
			}
			for _, f := range r.Fired {
				switch f {
				case "readfile:enoent", "readfile:eio", "fsread:eio", "fsopen:enoent", "fsopen:eacces", "fsopen:eio", "func:error", "func:panic", "method:error", "method:panic":
					cr.add(prop, "fault-swallowed", r.OpID, "fault-swallowed:"+f, "%s returned nil although the injected fault %s reached it as an error", r.Kind, f)
				}
			}
			if r.FailedAt != 0 {
				cr.add(prop, "fault-swallowed", r.OpID, "fault-swallowed:write", "%s returned nil although Write #%d failed", r.Kind, r.FailedAt)
			}
		}
	}
	// Every Parse entry point hands its text to text/template's parser first: a
	// text (or the bytes a file read delivered) that the parser rejects must
	// make the call fail.
	if prop == "C08" {
		c := cr.tw.c
		left, right := "", ""
		customDelims := false
		for i := range c.Defs {
			if c.Defs[i].Kind == opDelims {
				// which delimiters a later receiver has depends on when it was
				// created (New on an existing name, function forms): not tracked
				customDelims = true
			}
		}
		for _, r := range o.all() {
			if customDelims {
				break
			}
			if !r.Done || r.Aborted != "" || r.Panic != "" || r.Err != "" || r.Skipped != "" || !isParseKind(r.Kind) {
				continue
			}
			op := c.opByID(r.OpID)
			var texts []string
			switch r.Kind {
			case opParse:
				texts = append(texts, op.Text)
			case opParseConst:
				if op.Const >= 0 && op.Const < len(constTexts) {
					texts = append(texts, constTexts[op.Const])
				}
			default:
				for _, rd := range r.Reads {
					if !rd.Err {
						texts = append(texts, string(rd.Data))
					}
				}
			}
			for _, t := range texts {
				if perr := refParse(t, left, right); perr != nil {
					cr.add(prop, "parse-error-swallowed", r.OpID, "parse-error-swallowed:"+r.Kind, "%s returned nil for a text that text/template's parser rejects (%v): %q", r.Kind, perr, clip(t))
					break
				}
			}
		}
	}
	for _, p := range o.TaskPan {
		cr.add(prop, "panic", -1, "panic:task", "%s", p)
	}
	for _, st := range []struct {
		name string
		dl   bool
		hang bool
		msg  string
	}{{"definition phase", o.DefSt.Deadlock, o.DefSt.Hang, o.DefSt.DeadlockMsg}, {"concurrent phase", o.Stats.Deadlock, o.Stats.Hang, o.Stats.DeadlockMsg}} {
		if st.dl {
			cr.add(prop, "deadlock", -1, "deadlock", "%s: %s", st.name, st.msg)
		}
		if st.hang {
			op := -1
			for _, r := range o.flat() {
				if r.Aborted != "" {
					op = r.OpID
				}
			}
			cr.add(prop, "hang", op, "hang", "%s: an API call exceeded its step budget", st.name)
		}
	}
}

func panicSig(p string) string {
	// keep the constant part of well-known panic texts
	for _, k := range []string{"is unimplemented", "nil pointer dereference", "infinite loop", "shared between templates", "out of sync", "no templates in name space", "error adding derived template", "index out of range", "slice bounds"} {
		if strings.Contains(p, k) {
			return k
		}
	}
	if len(p) > 40 {
		p = p[:40]
	}
	return p
}

func firstFrame(stack string) string {
	for _, l := range strings.Split(stack, "\n") {
		if strings.Contains(l, "safehtml/template.") || strings.Contains(l, "text/template.") {
			if i := strings.Index(l, "("); i > 0 {
				l = l[:i]
			}
			if i := strings.LastIndex(l, "/"); i >= 0 {
				l = l[i+1:]
			}
			return l
		}
	}
	return "?"
}

func execTarget(r *Result) (string, bool) {
	switch r.Kind {
	case opExec, opExecTmpl, opExecHTML, opExecTmplHTML:
		return r.Target, r.Skipped == ""
	case opLookupExec:
		return r.Target, r.Found && r.Skipped == ""
	}
	return "", false
}

// ------------------------------------------------------------------- C05 --

// verdict: does analysis of (set, name) fail in the history-free situation?
func (cr *checkResult) verdict(set int, name string) (failed bool, known bool, code int) {
	op := &Op{Kind: opExecTmpl, Set: set, Name: name, Data: benignData()}
	r := cr.tw.call(op)
	if r != nil && strings.Contains(r.Err, "on range loop re-entry") {
		cr.note("failkind_range_loop_reentry")
	}
	if r != nil && strings.Contains(r.Err, "cannot compute output context") {
		cr.note("failkind_uncomputable_recursive_context")
	}
	if r != nil && (strings.Contains(r.Err, "no such template") || strings.Contains(r.Err, "incomplete or empty template")) {
		cr.note("failkind_undefined_or_empty_callee")
	}
	if r != nil && (strings.Contains(r.Err, "URL prefix") || strings.Contains(r.Err, "ambiguous URL")) {
		cr.note("failkind_unsafe_or_ambiguous_url_prefix")
	}
	if r == nil || r.Skipped != "" || r.Panic != "" {
		return false, false, 0
	}
	if r.Err != "" && r.ErrClass != "exec" && r.ErrClass != "writer" && len(r.Out) == 0 && r.NWrites == 0 && len(r.Probes) == 0 {
		return true, true, r.ErrCode
	}
	return false, true, 0
}

func checkC05(cr *checkResult) {
	o := cr.out
	c := cr.tw.c
	opOf := map[int]*Op{}
	for _, op := range c.allOps() {
		opOf[op.ID] = op
	}
	for _, r := range o.flat() {
		if !r.Done || r.Aborted != "" {
			continue
		}
		// Invariant 4: Execute*ToHTML returns the zero HTML with any error.
		if (r.Kind == opExecHTML || r.Kind == opExecTmplHTML) && r.Err != "" {
			cr.note("tohtml_error_seen")
			if r.ErrClass == "exec" {
				cr.note("tohtml_runtime_error_seen")
			}
			if r.HTML != "" {
				cr.add("C05", "tohtml-nonzero-on-error", r.OpID, "tohtml-nonzero", "%s returned error %q together with non-zero HTML %q", r.Kind, clip(r.Err), clip(r.HTML))
			}
		}
		name, ok := execTarget(r)
		if !ok {
			continue
		}
		op := opOf[r.OpID]
		failed, known, code := cr.verdict(op.Set, name)
		if !known || !failed {
			continue
		}
		cr.note("call_on_failed_template")
		cr.note(fmt.Sprintf("failcode_%d", code))
		if r.Err == "" {
			cr.add("C05", "sticky-broken", r.OpID, "sticky-broken", "template %q fails contextual analysis on a fresh set (code %d) but %s returned nil here; wrote %q", name, code, r.Kind, clip(string(r.Out)))
			continue
		}
		if r.NWrites != 0 || len(r.Out) != 0 {
			cr.add("C05", "wrote-on-failure", r.OpID, "wrote-on-failure", "template %q fails contextual analysis on a fresh set but %s wrote %q before returning %q", name, r.Kind, clip(string(r.Out)), clip(r.Err))
		}
		if len(r.Probes) != 0 {
			cr.add("C05", "body-ran-on-failure", r.OpID, "body-ran-on-failure", "template %q fails contextual analysis on a fresh set but callbacks %v ran during %s", name, r.Probes, r.Kind)
		}
	}
}

// ------------------------------------------------------------------- C06 --

func checkC06(cr *checkResult) {
	o := cr.out
	c := cr.tw.c
	opOf := map[int]*Op{}
	for _, op := range c.allOps() {
		opOf[op.ID] = op
	}
	for _, r := range o.all() {
		if !r.Done || r.Aborted != "" || r.Skipped != "" || r.Panic != "" {
			continue
		}
		if !isExecKind(r.Kind) {
			continue
		}
		op := opOf[r.OpID]
		tr := cr.tw.call(op)
		if tr == nil || tr.Panic != "" {
			continue
		}
		compareWithTwin(cr, "C06", "history-dependent", r, tr, "a fresh set with the same definitions")
		for i, s := range r.Subs {
			if i < len(tr.Subs) && s.Target == tr.Subs[i].Target {
				// sub-executions on the twin are themselves a history; only
				// the first one is history-free.
				if i == 0 {
					compareWithTwin(cr, "C06", "history-dependent", s, tr.Subs[i], "a fresh set with the same definitions")
				}
			}
		}
	}
}

// compareWithTwin applies the (narrowly relaxed) equality between a call in
// the history and the same call on the reference world.
func compareWithTwin(cr *checkResult, prop, class string, r, tr *Result, what string) {
	if r.Kind == opTemplatesEx {
		return
	}
	if abortingFault(r) {
		cr.note("faulted_call_compared")
		// The call was aborted by an injected fault: it may fail and lose
		// output, it may never produce wrong output.
		if !bytes.HasPrefix(tr.Out, r.Out) {
			cr.add(prop, class, r.OpID, class+":faulted-wrong-bytes", "%s of %q was aborted by %v and wrote %q, which is not a prefix of %q written on %s", r.Kind, r.Target, r.Fired, clip(string(r.Out)), clip(string(tr.Out)), what)
		}
		if r.Err == "" && !hasFired(r, "write:") {
			// a callback fault must surface as an error (writer faults may
			// land on a Write that never happens)
			cr.add(prop, class, r.OpID, class+":fault-swallowed", "%s of %q: fault %v fired but the call returned nil", r.Kind, r.Target, r.Fired)
		}
		if r.Err == "" && r.FailedAt != 0 {
			cr.add(prop, class, r.OpID, class+":write-error-swallowed", "%s of %q: Write #%d failed but the call returned nil", r.Kind, r.Target, r.FailedAt)
		}
		return
	}
	if r.Found != tr.Found {
		cr.add(prop, class, r.OpID, class+":lookup", "%s(%q): found=%v here, found=%v on %s", r.Kind, r.Target, r.Found, tr.Found, what)
		return
	}
	if (r.Err == "") != (tr.Err == "") {
		cr.add(prop, class, r.OpID, class+":error-differs", "%s of %q returned err=%q here but err=%q on %s (bytes here %q, there %q)", r.Kind, r.Target, clip(r.Err), clip(tr.Err), what, clip(string(r.Out)), clip(string(tr.Out)))
		return
	}
	if !bytes.Equal(r.Out, tr.Out) {
		cr.add(prop, class, r.OpID, class+":bytes-differ", "%s of %q wrote %q here but %q on %s", r.Kind, r.Target, clip(string(r.Out)), clip(string(tr.Out)), what)
	}
}

// refParse parses text with a plain text/template set that knows the harness's
// function names (it is at least as permissive as any set of the harness).
func refParse(text, left, right string) error {
	stub := func(...interface{}) (string, error) { return "", nil }
	_, err := texttemplate.New("ref").Delims(left, right).Funcs(texttemplate.FuncMap{"probe": stub, "val": stub}).Parse(text)
	return err
}
