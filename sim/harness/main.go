// Command simharness is the deterministic-simulation harness for
// google/safehtml (see /verif/DESIGN.md).  It is compiled against an
// instrumented scratch copy of the current /repo tree by /verif/check.
//
// Modes:
//
//	simharness -prop C06 -tier quick -seed 1            coordinator: spawns workers, writes evidence
//	simharness -worker -prop C06 -from 0 -to 1000 ...    one worker process (internal)
//	simharness -replay file.json                         replay one case, print the verdict
package main

import (
	"bufio"
	"encoding/json"
	"flag"
	"fmt"
	"io"
	"os"
	"os/exec"
	"path/filepath"
	"regexp"
	"runtime"
	"sort"
	"strings"
	"sync"
	"time"

	"github.com/google/safehtml/simrt"
)

var (
	fProp     = flag.String("prop", "", "property id (C05..C09)")
	fTier     = flag.String("tier", "quick", "quick | thorough")
	fSeed     = flag.Uint64("seed", 1, "VERIF_SEED")
	fRuns     = flag.Int("runs", 0, "override the number of runs")
	fWorkers  = flag.Int("workers", 0, "worker processes (default: number of CPUs)")
	fWorker   = flag.Bool("worker", false, "internal: run as a worker")
	fFrom     = flag.Int("from", 0, "worker: first run index")
	fTo       = flag.Int("to", 0, "worker: one past the last run index")
	fReplay   = flag.String("replay", "", "replay this case file")
	fEvidence = flag.String("evidence", "", "evidence file to write")
	fReplays  = flag.String("replays", "", "directory for replay files")
	fKnown    = flag.String("known", "", "known-findings file")
	fScratch  = flag.String("scratch", "", "scratch directory (hash files, race logs)")
	fRaceBin  = flag.String("racebin", "", "path of the race-detector build of this harness (coordinator)")
	fRaceRuns = flag.Int("raceruns", -1, "number of runs given to the race build")
	fInstr    = flag.String("instr", "", "instrumentation mode and counts, recorded in the evidence")
	fDump     = flag.Int("dump", -1, "print the generated case for this run index and exit")
	fSelfTest = flag.String("selftest", "", "determinism | racetoy")
	fNoMin    = flag.Bool("nomin", false, "do not minimise violations")
	fMaxViol  = flag.Int("maxviol", 40, "worker: stop after this many violating runs")
	fCF       = flag.String("cf", "", "id of the known finding whose counterfactual repair is compiled into the scratch copy (e.g. F6)")
)

func runSeedFor(seed uint64, prop string, run int) uint64 {
	return splitmix64(splitmix64(seed^hashString(prop)) + uint64(run)*0x9e3779b97f4a7c15)
}

// check runs the oracles of a property on a case.
func check(c *Case) *checkResult {
	out := runCase(c)
	cr := &checkResult{out: out, tw: newTwinner(c)}
	switch c.Prop {
	case "C05":
		checkC05(cr)
	case "C06":
		checkC06(cr)
	case "C07":
		checkC07(cr)
	case "C08":
		checkTotal(cr, "C08")
	case "C09":
		checkC09(cr)
	}
	simrt.SetMapSalt(c.MapSalt)
	return cr
}

func tierRuns(prop, tier string) (plain, race int) {
	quick := map[string][2]int{
		"C05": {30000, 0}, "C06": {30000, 0}, "C07": {30000, 0}, "C08": {40000, 0}, "C09": {24000, 6000},
	}
	thorough := map[string][2]int{
		"C05": {2000000, 100000}, "C06": {2500000, 0}, "C07": {2000000, 0}, "C08": {3000000, 100000}, "C09": {1000000, 200000},
	}
	m := quick
	if tier == "thorough" {
		m = thorough
	}
	v := m[prop]
	return v[0], v[1]
}

func main() {
	flag.Parse()
	switch {
	case *fSelfTest != "":
		os.Exit(selfTest(*fSelfTest))
	case *fReplay != "":
		os.Exit(replayMain(*fReplay))
	case *fDump >= 0:
		c := generate(*fProp, runSeedFor(*fSeed, *fProp, *fDump), *fDump)
		c.Seed = *fSeed
		b, _ := json.MarshalIndent(c, "", " ")
		fmt.Println(string(b))
	case *fWorker:
		workerMain()
	default:
		os.Exit(coordinatorMain())
	}
}

// ---------------------------------------------------------------- worker --

type workerMsg struct {
	Type      string     `json:"type"` // violation | stats
	Case      *Case      `json:"case,omitempty"`
	Violation *Violation `json:"violation,omitempty"`
	Minimised bool       `json:"minimised,omitempty"`
	Race      string     `json:"race,omitempty"`
	KnownID   string     `json:"known_id,omitempty"`
	Stats     *runStats  `json:"stats,omitempty"`
}

type runStats struct {
	Runs          int            `json:"runs"`
	NonTrivial    int            `json:"nontrivial"`
	Ops           int            `json:"ops"`
	OpsOK         int            `json:"ops_ok"`
	Steps         uint64         `json:"steps"`
	Switches      uint64         `json:"switches"`
	LockBlocks    uint64         `json:"lock_blocks"`
	MapKeys       uint64         `json:"mapkeys"`
	Fired         map[string]int `json:"fired"`
	Notes         map[string]int `json:"notes"`
	ErrClasses    map[string]int `json:"errclasses"`
	TwinBuilds    int            `json:"twin_builds"`
	TwinAborted   int            `json:"twin_aborted"`
	ViolatingRuns int            `json:"violating_runs"`
	Samples       []*Case        `json:"samples,omitempty"`
	Race          bool           `json:"race"`
	WallS         float64        `json:"wall_s"`
	HashFile      string         `json:"hash_file,omitempty"`
	MultiTask     int            `json:"multitask_runs"`
}

func newRunStats() *runStats {
	return &runStats{Fired: map[string]int{}, Notes: map[string]int{}, ErrClasses: map[string]int{}}
}

func (s *runStats) merge(o *runStats) {
	s.Runs += o.Runs
	s.NonTrivial += o.NonTrivial
	s.Ops += o.Ops
	s.OpsOK += o.OpsOK
	s.Steps += o.Steps
	s.Switches += o.Switches
	s.LockBlocks += o.LockBlocks
	s.MapKeys += o.MapKeys
	s.TwinBuilds += o.TwinBuilds
	s.TwinAborted += o.TwinAborted
	s.ViolatingRuns += o.ViolatingRuns
	s.MultiTask += o.MultiTask
	for k, v := range o.Fired {
		s.Fired[k] += v
	}
	for k, v := range o.Notes {
		s.Notes[k] += v
	}
	for k, v := range o.ErrClasses {
		s.ErrClasses[k] += v
	}
}

// shapeHash: hash of the case without identifiers that merely count.
func shapeHash(c *Case) uint64 {
	type shape struct {
		Defs  []Op
		Tasks [][]Op
		F     []Fault
		Disk  map[string]string
	}
	return hashJSON(shape{c.Defs, c.Tasks, c.Faults, c.Disk})
}

func endStateHash(o *Outcome) uint64 {
	var b strings.Builder
	seen := map[string]bool{}
	for _, r := range o.flat() {
		if n, ok := execTarget(r); ok {
			k := fmt.Sprintf("%d/%s", r.Task, n)
			if !seen[k] {
				seen[k] = true
				fmt.Fprintf(&b, "%s:%s;", n, r.ErrClass)
			}
		}
		if isParseKind(r.Kind) || r.Kind == opClone {
			fmt.Fprintf(&b, "%s:%v;", r.Kind, r.Err == "")
		}
	}
	return hashString(b.String())
}

func workerMain() {
	start := time.Now()
	st := newRunStats()
	st.Race = simrt.RaceBuild
	enc := json.NewEncoder(os.Stdout)
	warmUp()
	var hashes []string
	rl := newRaceLog()
	knownSeen := map[string]int{}
	unknownRuns, hangRuns := 0, 0
	for run := *fFrom; run < *fTo; run++ {
		c := generateTier(*fProp, runSeedFor(*fSeed, *fProp, run), run, *fTier)
		c.Seed, c.Tier = *fSeed, *fTier
		orig := c.clone()
		cr := check(c)
		o := cr.out
		st.Runs++
		nops, firsts := 0, map[string]bool{}
		for _, r := range o.flat() {
			if r.Skipped != "" {
				continue
			}
			nops++
			st.Ops++
			if r.Err == "" && r.Panic == "" {
				st.OpsOK++
			}
			if r.ErrClass != "" {
				st.ErrClasses[r.ErrClass]++
			}
			if n, ok := execTarget(r); ok {
				firsts[n] = true
			}
		}
		st.Steps += o.Stats.Yields + o.DefSt.Yields
		st.Switches += o.Stats.Switches
		st.LockBlocks += o.Stats.LockBlocks
		st.MapKeys += o.Stats.MapKeysHits + o.DefSt.MapKeysHits
		if len(c.Tasks) > 1 {
			st.MultiTask++
		}
		nf := 0
		for k, v := range o.Fired {
			st.Fired[k] += v
			nf += v
		}
		if o.Stats.Switches > 0 {
			st.Fired["preemption"] += int(o.Stats.Switches)
		}
		if o.Stats.LockBlocks > 0 {
			st.Fired["lock_contention"] += int(o.Stats.LockBlocks)
		}
		for k, v := range cr.notes {
			st.Notes[k] += v
		}
		reachProbes(c, o, st)
		st.TwinBuilds += cr.tw.builds
		st.TwinAborted += cr.tw.aborted
		if nops >= 2 && (nf > 0 || o.Stats.Switches > 0 || len(firsts) >= 2) {
			st.NonTrivial++
			h := shapeHash(c)*31 + o.Stats.IlvHash*17 + endStateHash(o)
			hashes = append(hashes, fmt.Sprintf("n:%x", h))
			if o.Stats.Switches > 0 {
				hashes = append(hashes, fmt.Sprintf("i:%x", o.Stats.IlvHash))
			}
			hashes = append(hashes, fmt.Sprintf("s:%x", endStateHash(o)))
		}
		if len(st.Samples) < 3 && (run-*fFrom) < 50 {
			if (len(st.Samples) == 0 && len(c.Faults) == 0) || (len(st.Samples) == 1 && len(o.Fired) > 0) || (len(st.Samples) == 2 && nops >= 8) {
				st.Samples = append(st.Samples, c.clone())
			}
		}
		viols := cr.viol
		race := rl.newReports()
		if race != "" && !libraryRace(race) {
			fmt.Fprintf(os.Stderr, "simharness: data race inside the harness itself (run %d), not a property violation:\n%s\n", run, clipN(race, 3000))
			os.Exit(3)
		}
		if race != "" {
			viols = append(viols, &Violation{Prop: *fProp, Class: "race", OpID: -1, Sig: "race:" + raceSig(race), Detail: race})
		}
		if len(viols) > 0 {
			st.ViolatingRuns++
			unknown := false
			// one message per distinct signature in this run
			seen := map[string]bool{}
			for _, v := range viols {
				if seen[v.Sig] {
					continue
				}
				seen[v.Sig] = true
				// Instances of a known finding beyond the first per worker are
				// only counted: no need to minimise each of them again.
				if v.Class != "race" {
					if k0 := classifyCounterfactual(c, v); k0 != "" {
						st.Notes["known_finding_instances_"+k0]++
						knownSeen[v.Sig+"|"+k0]++
						if knownSeen[v.Sig+"|"+k0] > 1 {
							continue
						}
					}
				}
				mc, mv, minimised := c, v, false
				if !*fNoMin && v.Class != "race" {
					mc, mv, minimised = minimise(c, v)
				} else if !*fNoMin && v.Class == "race" && st.Notes["race_cases_minimised"] < 2 {
					st.Notes["race_cases_minimised"]++
					mc, minimised = minimiseRace(c, v)
				}
				_ = orig
				kid := ""
				if v.Class != "race" {
					kid = classifyCounterfactual(mc, mv)
				}
				if kid == "" {
					unknown = true
				}
				enc.Encode(&workerMsg{Type: "violation", Case: mc, Violation: mv, Minimised: minimised, Race: race, KnownID: kid})
			}
			// reports produced while minimising belong to mutated cases
			rl.newReports()
			if unknown {
				unknownRuns++
			}
			for _, v := range viols {
				if v.Class == "hang" {
					hangRuns++
				}
			}
			// every hanging call burns its whole step budget: a few are enough
			if unknownRuns >= *fMaxViol || hangRuns >= 2 {
				st.Notes["stopped_early_too_many_violations"]++
				break
			}
		}
	}
	st.WallS = time.Since(start).Seconds()
	if *fScratch != "" {
		st.HashFile = filepath.Join(*fScratch, fmt.Sprintf("hashes.%d.%d.%v", *fFrom, *fTo, simrt.RaceBuild))
		f, err := os.Create(st.HashFile)
		if err == nil {
			w := bufio.NewWriter(f)
			for _, h := range hashes {
				fmt.Fprintln(w, h)
			}
			w.Flush()
			f.Close()
		}
	}
	enc.Encode(&workerMsg{Type: "stats", Stats: st})
}

// reachProbes counts "this rare condition was hit" events that can be read off
// the recorded history (DESIGN §3.5).
func reachProbes(c *Case, o *Outcome, st *runStats) {
	firstSeen := map[string]bool{}
	type iv struct {
		task     int
		inv, ret uint64
		name     string
	}
	var firsts []iv
	for _, r := range o.all() {
		if !r.Done {
			continue
		}
		if r.ErrClass == "exec" {
			switch {
			case strings.Contains(r.Err, "expected a safehtml."):
				st.Fired["data:sanitizer_type_error"]++
				if len(r.Out) > 0 {
					st.Notes["sanitizer_error_after_partial_output"]++
				}
			case strings.Contains(r.Err, "map has no entry for key"):
				st.Fired["data:missingkey_error"]++
			case strings.Contains(r.Err, "nil pointer evaluating"), strings.Contains(r.Err, "can't evaluate field"):
				st.Fired["data:evaluation_error"]++
			case strings.Contains(r.Err, "exceeded maximum template depth"):
				st.Notes["exec_recursion_limit_hit"]++
			}
		}
		if n, ok := execTarget(r); ok {
			key := fmt.Sprintf("%d/%s", c.opByID(r.OpID).Set, n)
			if !firstSeen[key] {
				firstSeen[key] = true
				if r.Task >= 0 && len(c.Tasks) > 1 {
					firsts = append(firsts, iv{r.Task, r.Inv, r.Ret, n})
				}
				if abortingFault(r) {
					st.Notes["fault_on_first_execution_of_a_template"]++
				}
				if r.ErrClass == "analysis" {
					st.Notes["first_execution_failed_analysis"]++
				}
			} else if r.ErrClass == "analysis" {
				st.Notes["repeat_call_on_failed_template"]++
			}
		}
	}
	for i := range firsts {
		for j := i + 1; j < len(firsts); j++ {
			a, b := firsts[i], firsts[j]
			if a.task != b.task && a.inv < b.ret && b.inv < a.ret {
				st.Notes["overlapping_first_executions"]++
			}
		}
	}
	if o.Stats.LockBlocks > 0 && len(firsts) >= 2 {
		st.Notes["runs_with_contended_set_lock"]++
	}
}

// classifyCounterfactual re-executes a violating case with the counterfactual
// repair of a known finding switched on (see sim/cf_patch.py).  If the same
// violation no longer occurs, the case is an instance of that finding.
func classifyCounterfactual(c *Case, v *Violation) string {
	if *fCF == "" {
		return classifyStructural(c, v)
	}
	simrt.SetCounterfactual(true)
	defer simrt.SetCounterfactual(false)
	cr := check(c.clone())
	for _, x := range cr.viol {
		if x.Prop == v.Prop && x.Class == v.Class {
			return ""
		}
	}
	return *fCF
}

var tmplCallRe = regexp.MustCompile(`\{\{-?\s*template\s+"([^"]+)"`)

// classifyStructural is the fallback used only when the counterfactual switch
// for F6 cannot be compiled into the tree under test (mangle no longer has the
// expected shape): a violating case of one of F6's classes is taken for an
// instance if some helper is called from two sites inside attribute values
// (or inside different elements) whose static context text differs - the shape
// every F6 instance has.  Looser than the counterfactual, hence only a fallback.
func classifyStructural(c *Case, v *Violation) string {
	switch v.Class {
	case "history-dependent", "sticky-broken", "wrote-on-failure", "body-ran-on-failure":
	default:
		return ""
	}
	sites := map[string]map[string]bool{}
	scan := func(text string) {
		for _, m := range tmplCallRe.FindAllStringSubmatchIndex(text, -1) {
			name := text[m[2]:m[3]]
			start := m[0] - 48
			if start < 0 {
				start = 0
			}
			ctx := text[start:m[0]]
			if i := strings.LastIndex(ctx, "<"); i >= 0 {
				ctx = ctx[i:]
			}
			if j := strings.LastIndex(ctx, "}}"); j >= 0 && !strings.ContainsAny(ctx[j:], "<=") {
				ctx = ctx[:0]
			}
			if sites[name] == nil {
				sites[name] = map[string]bool{}
			}
			sites[name][ctx] = true
		}
	}
	for _, op := range c.allOps() {
		scan(op.Text)
	}
	for _, t := range c.Disk {
		scan(t)
	}
	for _, set := range sites {
		inAttr := 0
		for ctx := range set {
			if strings.ContainsAny(ctx, "=") || strings.HasPrefix(ctx, "<") {
				inAttr++
			}
		}
		if len(set) >= 2 && inAttr >= 1 {
			return "F6"
		}
	}
	return ""
}

// warmUp fills the lazily initialised caches of fmt, reflect, regexp and
// text/template from one goroutine before the first simulated run (DESIGN §3.4).
func warmUp() {
	for i := 0; i < 6; i++ {
		c := generate("C08", runSeedFor(977, "warmup", i), i)
		c.Tasks = [][]Op{flatten(c.Tasks)}
		c.Record = false
		runCase(c)
	}
}

func flatten(ts [][]Op) []Op {
	var out []Op
	for _, t := range ts {
		out = append(out, t...)
	}
	return out
}

// ----------------------------------------------------------- coordinator --

type knownFinding struct {
	ID       string `json:"id"`
	Status   string `json:"status"` // known | fixed
	Property string `json:"property"`
	// How an instance is recognised: a violating (minimised) case is an
	// instance iff it stops violating when the counterfactual repair named
	// here is switched on in the scratch copy.
	Counterfactual string `json:"counterfactual,omitempty"`
	Example        string `json:"example,omitempty"` // replay file of a minimal instance
	What           string `json:"what"`
	Commit         string `json:"commit,omitempty"`
}

type knownFile struct {
	Findings []knownFinding `json:"findings"`
}

func loadKnown(path string) []knownFinding {
	if path == "" {
		return nil
	}
	b, err := os.ReadFile(path)
	if err != nil {
		return nil
	}
	var kf knownFile
	if err := json.Unmarshal(b, &kf); err != nil {
		fmt.Fprintf(os.Stderr, "cannot parse %s: %v\n", path, err)
		os.Exit(2)
	}
	return kf.Findings
}

func matchKnown(kf []knownFinding, v *Violation, knownID string) *knownFinding {
	if knownID == "" {
		return nil
	}
	for i := range kf {
		k := &kf[i]
		if k.Status == "known" && k.Property == v.Prop && k.ID == knownID && k.Counterfactual != "" {
			return k
		}
	}
	return nil
}

type evidence struct {
	PropertyID  string                 `json:"property_id"`
	Tier        string                 `json:"tier"`
	Seed        uint64                 `json:"seed"`
	Level       string                 `json:"level"`
	Coverage    map[string]interface{} `json:"coverage"`
	Assumptions []string               `json:"assumptions"`
	WallS       float64                `json:"wall_s"`
	Violations  int                    `json:"violations"`
}

func coordinatorMain() int {
	start := time.Now()
	prop, tier := *fProp, *fTier
	if prop == "" {
		fmt.Fprintln(os.Stderr, "need -prop")
		return 2
	}
	plain, race := tierRuns(prop, tier)
	if *fRuns > 0 {
		plain = *fRuns
	}
	if *fRaceRuns >= 0 {
		race = *fRaceRuns
	}
	if *fRaceBin == "" {
		race = 0
	}
	nw := *fWorkers
	if nw <= 0 {
		nw = runtime.NumCPU()
	}
	scratch := *fScratch
	if scratch == "" {
		d, err := os.MkdirTemp("", "simharness-")
		if err != nil {
			fmt.Fprintln(os.Stderr, err)
			return 2
		}
		scratch = d
		defer os.RemoveAll(d)
	}
	fmt.Printf("simharness property=%s tier=%s VERIF_SEED=%d runs=%d race_runs=%d workers=%d\n", prop, tier, *fSeed, plain, race, nw)

	type job struct {
		bin      string
		from, to int
		race     bool
	}
	var jobs []job
	// Race-build runs use the indices after the plain ones.
	split := func(bin string, from, to int, isRace bool, parts int) {
		n := to - from
		if n <= 0 {
			return
		}
		if parts > n {
			parts = n
		}
		for i := 0; i < parts; i++ {
			a := from + n*i/parts
			b := from + n*(i+1)/parts
			jobs = append(jobs, job{bin, a, b, isRace})
		}
	}
	self, _ := os.Executable()
	// more, smaller jobs than workers so that the pool stays busy
	split(self, 0, plain, false, nw*4)
	split(*fRaceBin, plain, plain+race, true, nw*4)
	// run longest (race) jobs first
	sort.SliceStable(jobs, func(i, j int) bool { return jobs[i].race && !jobs[j].race })

	total := newRunStats()
	raceStats := newRunStats()
	var msgs []*workerMsg
	var mu sync.Mutex
	infra := 0
	var hashFiles []string
	sem := make(chan struct{}, nw)
	var wg sync.WaitGroup
	for _, j := range jobs {
		j := j
		wg.Add(1)
		sem <- struct{}{}
		go func() {
			defer wg.Done()
			defer func() { <-sem }()
			args := []string{"-worker", "-prop", prop, "-tier", tier, "-seed", fmt.Sprint(*fSeed),
				"-from", fmt.Sprint(j.from), "-to", fmt.Sprint(j.to), "-scratch", scratch}
			if *fNoMin {
				args = append(args, "-nomin")
			}
			if *fCF != "" {
				args = append(args, "-cf", *fCF)
			}
			cmd := exec.Command(j.bin, args...)
			var errBuf tailBuffer
			cmd.Stderr = io.MultiWriter(os.Stderr, &errBuf)
			cmd.Env = append(os.Environ(), "GOMAXPROCS=2")
			if j.race {
				cmd.Env = append(cmd.Env, fmt.Sprintf("GORACE=halt_on_error=0 log_path=%s/race.%d", scratch, j.from))
			}
			outp, err := cmd.StdoutPipe()
			if err != nil {
				mu.Lock()
				infra++
				mu.Unlock()
				return
			}
			if err := cmd.Start(); err != nil {
				fmt.Fprintf(os.Stderr, "worker start: %v\n", err)
				mu.Lock()
				infra++
				mu.Unlock()
				return
			}
			done := make(chan struct{})
			// watchdog: a worker that makes no progress for a long time is stuck
			// in a loop without yields.
			timer := time.AfterFunc(workerTimeout(j.to-j.from, j.race), func() {
				fmt.Fprintf(os.Stderr, "worker %d-%d timed out\n", j.from, j.to)
				cmd.Process.Kill()
			})
			sc := bufio.NewScanner(outp)
			sc.Buffer(make([]byte, 1<<20), 1<<28)
			gotStats := false
			for sc.Scan() {
				var m workerMsg
				if err := json.Unmarshal(sc.Bytes(), &m); err != nil {
					continue
				}
				mu.Lock()
				if m.Type == "stats" {
					gotStats = true
					total.merge(m.Stats)
					if m.Stats.Race {
						raceStats.merge(m.Stats)
					}
					if len(total.Samples) < 3 {
						total.Samples = append(total.Samples, m.Stats.Samples...)
					}
					if m.Stats.HashFile != "" {
						hashFiles = append(hashFiles, m.Stats.HashFile)
					}
				} else {
					msgs = append(msgs, &m)
				}
				mu.Unlock()
			}
			err = cmd.Wait()
			timer.Stop()
			close(done)
			if err != nil || !gotStats {
				// exit code 66 is the race detector's "races were reported"
				if ee, ok := err.(*exec.ExitError); ok && ee.ExitCode() == 66 && gotStats {
					return
				}
				fmt.Fprintf(os.Stderr, "worker %d-%d (race=%v) failed: %v\n", j.from, j.to, j.race, err)
				// A fatal "stack overflow" inside the code under test cannot be
				// recovered by the worker; find the run that causes it and
				// report it (unbounded recursion is a C08 matter, but every
				// check exercises the same API).
				if strings.Contains(errBuf.String(), "stack overflow") && strings.Contains(errBuf.String(), "google/safehtml") {
					if m := isolateCrash(j.bin, prop, tier, j.from, j.to, scratch); m != nil {
						mu.Lock()
						msgs = append(msgs, m)
						mu.Unlock()
						return
					}
				}
				mu.Lock()
				infra++
				mu.Unlock()
			}
		}()
	}
	wg.Wait()

	distinct := map[string]bool{}
	distinctIlv := map[string]bool{}
	distinctState := map[string]bool{}
	for _, hf := range hashFiles {
		f, err := os.Open(hf)
		if err != nil {
			continue
		}
		sc := bufio.NewScanner(f)
		for sc.Scan() {
			t := sc.Text()
			switch {
			case strings.HasPrefix(t, "n:"):
				distinct[t] = true
			case strings.HasPrefix(t, "i:"):
				distinctIlv[t] = true
			case strings.HasPrefix(t, "s:"):
				distinctState[t] = true
			}
		}
		f.Close()
		os.Remove(hf)
	}

	// Triage violations: known findings vs new ones.
	known := loadKnown(*fKnown)
	type rep struct {
		m    *workerMsg
		path string
	}
	bySig := map[string]*rep{}
	var sigs []string
	for _, m := range msgs {
		s := m.Violation.Sig + "|" + m.KnownID
		if old, ok := bySig[s]; !ok {
			bySig[s] = &rep{m: m}
			sigs = append(sigs, s)
		} else if caseSize(m.Case) < caseSize(old.m.Case) {
			old.m = m
		}
	}
	sort.Strings(sigs)
	newViol := 0
	knownHit := map[string]int{}
	var out []string
	for _, s := range sigs {
		r := bySig[s]
		v := r.m.Violation
		if k := matchKnown(known, v, r.m.KnownID); k != nil {
			knownHit[k.ID]++
			if knownHit[k.ID] == 1 {
				out = append(out, fmt.Sprintf("KNOWN-FINDING: property=%s %s: %s", prop, k.ID, k.What))
			}
			continue
		}
		newViol++
		dir := *fReplays
		if dir == "" {
			dir = "."
		}
		os.MkdirAll(dir, 0o755)
		r.m.Case.Expect = v
		p := filepath.Join(dir, fmt.Sprintf("%s-%d-%d-%s.json", prop, *fSeed, r.m.Case.Run, sanitize(v.Class)))
		b, _ := json.MarshalIndent(r.m.Case, "", " ")
		os.WriteFile(p, b, 0o644)
		abs, _ := filepath.Abs(p)
		fmt.Printf("violation class=%s sig=%s run=%d minimised=%v\n  %s\n", v.Class, v.Sig, r.m.Case.Run, r.m.Minimised, strings.ReplaceAll(clipN(v.Detail, 1500), "\n", "\n  "))
		out = append(out, fmt.Sprintf("VIOLATION property=%s replay=%s", prop, abs))
	}

	wall := time.Since(start).Seconds()
	ev := &evidence{PropertyID: prop, Tier: tier, Seed: *fSeed, Level: "exploration", WallS: wall, Violations: newViol}
	samples := []interface{}{}
	for _, s := range total.Samples {
		if len(samples) < 3 {
			samples = append(samples, s)
		}
	}
	if len(samples) == 0 {
		samples = append(samples, generate(prop, runSeedFor(*fSeed, prop, 0), 0))
	}
	hours := wall / 3600
	ev.Coverage = map[string]interface{}{
		"evaluations":         total.Runs,
		"distinct_nontrivial": len(distinct),
		"rule": "One evaluation = one simulated run: a generated template set, a definition phase and 1-4 simulated caller goroutines issuing API calls under a seeded schedule and fault plan, checked by the property's oracle. " +
			"A run is non-trivial iff it made >= 2 API calls that were not skipped AND (>= 1 planned fault actually fired OR >= 1 preemption was taken OR >= 2 distinct templates were executed). " +
			"distinct_nontrivial counts distinct values of hash(case shape [definitions, operations, data, fault plan], interleaving signature [task, site at every switch], abstract end state [first-execution verdict per template, parse/clone outcomes]) among non-trivial runs.",
		"samples":                       samples,
		"nontrivial_runs":               total.NonTrivial,
		"distinct_interleavings":        len(distinctIlv),
		"distinct_interleavings_note":   "distinct hashes of the (task, next task, site) sequence at the switch points actually taken, among runs with >= 1 preemption",
		"distinct_abstract_states":      len(distinctState),
		"distinct_abstract_states_note": "distinct hashes of the abstract end state: per task, the ordered first-execution verdicts (template name, error class) plus the outcome of every Parse*/Clone call",
		"runs_per_hour":                 int(float64(total.Runs) / hours),
		"seeds_per_hour":                int(float64(total.Runs) / hours),
		"race_build_runs":               raceStats.Runs,
		"multi_task_runs":               total.MultiTask,
		"api_calls":                     total.Ops,
		"api_calls_returning_nil":       total.OpsOK,
		"error_classes":                 total.ErrClasses,
		"logical_steps_total":           total.Steps,
		"simulated_time_note":           "the code under test has no clock; 'simulated time' is the scheduler's logical step counter (logical_steps_total)",
		"fault_fired_counts":            total.Fired,
		"probe_hits":                    total.Notes,
		"preemptions_taken":             total.Switches,
		"lock_contention_events":        total.LockBlocks,
		"map_order_decisions":           total.MapKeys,
		"twin_worlds_built":             total.TwinBuilds,
		"twin_runs_aborted":             total.TwinAborted,
		"violating_runs":                total.ViolatingRuns,
		"known_findings_matched":        knownHit,
		"new_violation_signatures":      newViol,
		"worker_failures":               infra,
		"instrumentation":               *fInstr,
		"components_real":               []string{"github.com/google/safehtml/template (instrumented copy of the current /repo tree: yields, lock hand-off, map-order seam)", "github.com/google/safehtml and internal packages (unmodified)", "GOROOT text/template (instrumented via build overlay)", "text/template/parse, fmt, reflect, html, regexp, sync (unmodified; sync.Pool pinned to always-drop in race builds)"},
		"components_stubbed":            []string{"io.Writer given to Execute*", "file system (fs.FS, ReadFile, Glob)", "FuncMap functions and data methods", "choice of the running goroutine", "hand-off of contended locks", "map iteration order"},
		"exhaustive":                    false,
	}
	ev.Assumptions = []string{
		"sampling, not proof: only the generated template sets, histories, schedules and fault plans were explored",
		"the instrumented copy behaves like the shipped code when no simulator is attached (the pinned suite passes on it; checked by setup)",
		"output oracles compare the implementation with itself in a simpler situation (fresh or lock-step twin set, sequential replay)",
		"go1.23.5 text/template",
	}
	if *fEvidence != "" {
		b, _ := json.MarshalIndent(ev, "", " ")
		os.MkdirAll(filepath.Dir(*fEvidence), 0o755)
		if err := os.WriteFile(*fEvidence, b, 0o644); err != nil {
			fmt.Fprintln(os.Stderr, err)
			return 2
		}
	}
	fmt.Printf("runs=%d (race build %d) nontrivial=%d distinct=%d ops=%d ok=%d steps=%d switches=%d wall=%.1fs\n",
		total.Runs, raceStats.Runs, total.NonTrivial, len(distinct), total.Ops, total.OpsOK, total.Steps, total.Switches, wall)
	fmt.Printf("faults fired: %v\nprobes: %v\n", total.Fired, total.Notes)
	for _, l := range out {
		fmt.Println(l)
	}
	if infra > 0 {
		fmt.Fprintf(os.Stderr, "%d worker(s) failed: infrastructure problem\n", infra)
		if newViol == 0 {
			return 2
		}
	}
	if total.Runs == 0 {
		return 2
	}
	if newViol > 0 {
		return 1
	}
	return 0
}

// tailBuffer keeps the last part of what is written to it.
type tailBuffer struct {
	mu sync.Mutex
	b  []byte
}

func (t *tailBuffer) Write(p []byte) (int, error) {
	t.mu.Lock()
	defer t.mu.Unlock()
	t.b = append(t.b, p...)
	if len(t.b) > 1<<16 {
		// keep head (the fatal error line and the first frames) and tail
		t.b = append(t.b[:1<<15:1<<15], t.b[len(t.b)-(1<<15):]...)
	}
	return len(p), nil
}

func (t *tailBuffer) String() string {
	t.mu.Lock()
	defer t.mu.Unlock()
	return string(t.b)
}

// crashes reports whether running the worker on [from,to) dies with a stack
// overflow, and returns the beginning of its stderr.
func crashes(bin, prop, tier string, from, to int, scratch string) (bool, string) {
	cmd := exec.Command(bin, "-worker", "-prop", prop, "-tier", tier, "-seed", fmt.Sprint(*fSeed),
		"-from", fmt.Sprint(from), "-to", fmt.Sprint(to), "-scratch", scratch, "-nomin")
	var eb tailBuffer
	cmd.Stderr = &eb
	cmd.Env = append(os.Environ(), "GOMAXPROCS=2")
	done := make(chan error, 1)
	if cmd.Start() != nil {
		return false, ""
	}
	go func() { done <- cmd.Wait() }()
	select {
	case err := <-done:
		return err != nil && strings.Contains(eb.String(), "stack overflow"), eb.String()
	case <-time.After(10 * time.Minute):
		cmd.Process.Kill()
		return false, ""
	}
}

// isolateCrash bisects a worker job that died with a stack overflow down to
// one run and returns it as a violation of class "crash".
func isolateCrash(bin, prop, tier string, from, to int, scratch string) *workerMsg {
	lo, hi := from, to
	for hi-lo > 1 {
		mid := (lo + hi) / 2
		if c, _ := crashes(bin, prop, tier, lo, mid, scratch); c {
			hi = mid
		} else if c, _ := crashes(bin, prop, tier, mid, hi, scratch); c {
			lo = mid
		} else {
			return nil // does not reproduce in isolation: leave it an infrastructure failure
		}
	}
	c, trace := crashes(bin, prop, tier, lo, hi, scratch)
	if !c {
		return nil
	}
	frame := "?"
	for _, l := range strings.Split(trace, "\n") {
		if strings.Contains(l, "google/safehtml/template.") || strings.Contains(l, "text/template.") {
			frame = strings.TrimSpace(l)
			if i := strings.Index(frame, "("); i > 0 {
				frame = frame[:i]
			}
			if i := strings.LastIndex(frame, "/"); i >= 0 {
				frame = frame[i+1:]
			}
			break
		}
	}
	cs := generateTier(prop, runSeedFor(*fSeed, prop, lo), lo, tier)
	cs.Seed, cs.Tier = *fSeed, tier
	return &workerMsg{Type: "violation", Case: cs, Violation: &Violation{Prop: prop, Class: "crash", OpID: -1,
		Sig: "crash:stack-overflow@" + frame, Detail: "the process died with 'fatal error: stack overflow' (unbounded recursion) while executing this case:\n" + clipN(trace, 1500)}}
}

func workerTimeout(runs int, race bool) time.Duration {
	// generous: the machine may be shared with other runs; a worker that is
	// really stuck in a loop without yields is still found, just later
	d := 900*time.Second + time.Duration(runs)*100*time.Millisecond
	if race {
		d += time.Duration(runs) * 400 * time.Millisecond
	}
	return d
}

func caseSize(c *Case) int {
	b, _ := json.Marshal(c)
	return len(b)
}

func sanitize(s string) string {
	return strings.Map(func(r rune) rune {
		if r >= 'a' && r <= 'z' || r >= 'A' && r <= 'Z' || r >= '0' && r <= '9' || r == '-' {
			return r
		}
		return '_'
	}, s)
}

func clipN(s string, n int) string {
	if len(s) > n {
		return s[:n] + "…"
	}
	return s
}

// ---------------------------------------------------------------- replay --

func replayMain(path string) int {
	b, err := os.ReadFile(path)
	if err != nil {
		fmt.Fprintln(os.Stderr, err)
		return 2
	}
	var c Case
	if err := json.Unmarshal(b, &c); err != nil {
		fmt.Fprintln(os.Stderr, err)
		return 2
	}
	warmUp()
	rl := newRaceLog()
	cr := check(&c)
	viols := cr.viol
	if race := rl.newReports(); race != "" {
		viols = append(viols, &Violation{Prop: c.Prop, Class: "race", OpID: -1, Sig: "race:" + raceSig(race), Detail: race})
	}
	fmt.Printf("replay %s property=%s steps=%d switches=%d hash=%x\n", path, c.Prop, cr.out.Stats.Yields+cr.out.DefSt.Yields, cr.out.Stats.Switches, cr.out.Stats.Hash^cr.out.DefSt.Hash)
	for _, r := range cr.out.all() {
		op := c.opByID(r.OpID)
		if op == nil {
			fmt.Printf("  (operation not reached: the run was aborted)\n")
			continue
		}
		state := ""
		if r.Aborted != "" {
			state = " ABORTED(" + r.Aborted + ")"
		} else if !r.Done {
			state = " NOT-FINISHED"
		}
		fmt.Printf("  op %d task %d %s %q set=%d ->%s out=%q err=%q class=%s panic=%q fired=%v probes=%v\n", r.OpID, r.Task, r.Kind, r.Target, op.Set, state, clipN(string(r.Out), 200), clipN(r.Err, 200), r.ErrClass, clipN(r.Panic, 100), r.Fired, r.Probes)
	}
	rc := 0
	abs, _ := filepath.Abs(path)
	known := loadKnown(*fKnown)
	for _, v := range viols {
		if v.Class != "race" {
			if k := matchKnown(known, v, classifyCounterfactual(&c, v)); k != nil {
				fmt.Printf("KNOWN-FINDING: property=%s %s: %s\n", c.Prop, k.ID, k.What)
				continue
			}
		}
		match := ""
		if c.Expect != nil && c.Expect.Class == v.Class {
			match = " (matches the recorded violation)"
		}
		fmt.Printf("violation class=%s sig=%s op=%d%s\n  %s\n", v.Class, v.Sig, v.OpID, match, strings.ReplaceAll(clipN(v.Detail, 3000), "\n", "\n  "))
		rc = 1
	}
	if rc == 1 {
		fmt.Printf("VIOLATION property=%s replay=%s\n", c.Prop, abs)
	} else {
		fmt.Println("no violation on this tree")
	}
	return rc
}
