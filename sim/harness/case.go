package main

import (
	"encoding/json"
	"fmt"
	"hash/fnv"
	"sort"

	"github.com/google/safehtml/simrt"
)

// A Case is one simulated run, written out in full: it is the replay file.
// Executing a case is a pure function of (case, code under test).
type Case struct {
	Prop     string            `json:"property"`
	Tier     string            `json:"tier,omitempty"`
	Seed     uint64            `json:"seed"`
	Run      int               `json:"run"`
	RunSeed  uint64            `json:"run_seed"`
	Profile  string            `json:"profile,omitempty"` // generator profile, informational
	MapSalt  uint64            `json:"map_salt"`
	TwinSalt uint64            `json:"twin_salt"`
	Disk     map[string]string `json:"disk,omitempty"` // simulated disk: path -> contents
	Defs     []Op              `json:"defs"`           // definition phase, one task, in order
	Tasks    [][]Op            `json:"tasks"`          // concurrent phase: ops per task
	Faults   []Fault           `json:"faults,omitempty"`
	// Schedule of the concurrent phase.  Record=true: drawn live from
	// SchedSeed with PYield/PSeam and written back into Switches before the
	// case is saved; Record=false: Switches are followed literally.
	Record    bool           `json:"record,omitempty"`
	SchedSeed uint64         `json:"sched_seed,omitempty"`
	PYield    float64        `json:"p_yield,omitempty"`
	PSeam     float64        `json:"p_seam,omitempty"`
	First     int            `json:"first,omitempty"`
	Switches  []simrt.Switch `json:"switches,omitempty"`
	// Expectation recorded when a violation is saved (for replay comparison).
	Expect *Violation `json:"expect,omitempty"`
}

// Op is one API call.
type Op struct {
	ID    int      `json:"id"`
	Kind  string   `json:"kind"`
	Set   int      `json:"set"`
	Recv  string   `json:"recv,omitempty"` // member used as receiver ("" = the set's root handle)
	Name  string   `json:"name,omitempty"`
	Text  string   `json:"text,omitempty"`
	Files []string `json:"files,omitempty"`
	Via   string   `json:"via,omitempty"` // entry-point flavour
	New   int      `json:"newset,omitempty"`
	Const int      `json:"const,omitempty"`
	Data  *Val     `json:"data,omitempty"`
	// Hold > 0 (Lookup only): keep the returned handle in slot Hold.
	// Held > 0: use the handle kept in that slot as receiver (if there is one;
	// otherwise the receiver is looked up by name as usual).
	Hold int `json:"hold,omitempty"`
	Held int `json:"held,omitempty"`
}

// Op kinds.
const (
	opNew          = "New"
	opParse        = "ParseFromTrustedTemplate"
	opParseConst   = "Parse"
	opParseFiles   = "ParseFiles"
	opParseGlob    = "ParseGlob"
	opParseFS      = "ParseFS"
	opClone        = "Clone"
	opOption       = "Option"
	opCSP          = "CSPCompatible"
	opDelims       = "Delims"
	opFuncs        = "Funcs"
	opExec         = "Execute"
	opExecTmpl     = "ExecuteTemplate"
	opExecHTML     = "ExecuteToHTML"
	opExecTmplHTML = "ExecuteTemplateToHTML"
	opLookup       = "Lookup"
	opLookupExec   = "Lookup+Execute"
	opTemplates    = "Templates"
	opTemplatesEx  = "Templates+Execute"
	opName         = "Name"
	opDefined      = "DefinedTemplates"
)

func isExecKind(k string) bool {
	switch k {
	case opExec, opExecTmpl, opExecHTML, opExecTmplHTML, opLookupExec, opTemplatesEx:
		return true
	}
	return false
}

func isParseKind(k string) bool {
	switch k {
	case opParse, opParseConst, opParseFiles, opParseGlob, opParseFS:
		return true
	}
	return false
}

// Val is a data value for an execution, encoded so that safe types, pointers
// and nils survive a round trip through JSON.
type Val struct {
	K string          `json:"k"` // nil str int bool map list ptr obj html url tru style script sheet ident typednil
	S string          `json:"s,omitempty"`
	I int             `json:"i,omitempty"`
	B bool            `json:"b,omitempty"`
	F map[string]*Val `json:"f,omitempty"`
	L []*Val          `json:"l,omitempty"`
	P *Val            `json:"p,omitempty"`
}

// Fault is one planned fault: the N-th (1-based) event on seam Seam during
// operation Op misbehaves as Kind says.
type Fault struct {
	Op   int    `json:"op"`
	Seam string `json:"seam"` // write func method fsopen fsread fsreaddir readfile glob
	N    int    `json:"n"`
	Kind string `json:"kind"`
	Off  int    `json:"off,omitempty"` // byte offset for torn writes / partial reads
}

// Violation is what an oracle reports.
type Violation struct {
	Prop   string `json:"property"`
	Class  string `json:"class"`
	OpID   int    `json:"op"`
	Detail string `json:"detail"`
	// Sig identifies the finding for the known-findings file (class + a
	// structural signature computed by the oracle).
	Sig string `json:"sig,omitempty"`
}

func (v *Violation) String() string {
	return fmt.Sprintf("%s/%s op=%d %s", v.Prop, v.Class, v.OpID, v.Detail)
}

func (c *Case) clone() *Case {
	b, err := json.Marshal(c)
	if err != nil {
		panic(err)
	}
	var d Case
	if err := json.Unmarshal(b, &d); err != nil {
		panic(err)
	}
	return &d
}

func (c *Case) allOps() []*Op {
	var out []*Op
	for i := range c.Defs {
		out = append(out, &c.Defs[i])
	}
	for t := range c.Tasks {
		for i := range c.Tasks[t] {
			out = append(out, &c.Tasks[t][i])
		}
	}
	return out
}

func (c *Case) opByID(id int) *Op {
	for _, o := range c.allOps() {
		if o.ID == id {
			return o
		}
	}
	return nil
}

func hashString(s string) uint64 {
	h := fnv.New64a()
	h.Write([]byte(s))
	return h.Sum64()
}

func hashJSON(v interface{}) uint64 {
	b, _ := json.Marshal(v)
	h := fnv.New64a()
	h.Write(b)
	return h.Sum64()
}

func sortedKeys(m map[string]string) []string {
	ks := make([]string, 0, len(m))
	for k := range m {
		ks = append(ks, k)
	}
	sort.Strings(ks)
	return ks
}

func splitmix64(x uint64) uint64 {
	x += 0x9e3779b97f4a7c15
	z := x
	z = (z ^ (z >> 30)) * 0xbf58476d1ce4e5b9
	z = (z ^ (z >> 27)) * 0x94d049bb133111eb
	return z ^ (z >> 31)
}
