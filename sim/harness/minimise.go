package main

import (
	"encoding/json"
	"os"
	"os/exec"
	"path/filepath"
	"regexp"

	"github.com/google/safehtml/simrt"
	"strings"
	"time"
)

// minimise shrinks a violating case by structural delta debugging: a
// candidate is kept only if executing it yields a violation of the same
// property, class and signature.  Everything is re-executed in-process.
type minimiser struct {
	want     *Violation
	attempts int
	deadline time.Time
	best     *Case
	bestV    *Violation
}

func (m *minimiser) fails(c *Case) *Violation {
	if m.attempts > 6000 || time.Now().After(m.deadline) {
		return nil
	}
	m.attempts++
	cc := c.clone()
	cr := check(cc)
	for _, v := range cr.viol {
		if v.Prop == m.want.Prop && v.Class == m.want.Class && v.Sig == m.want.Sig {
			return v
		}
	}
	return nil
}

// try evaluates candidate c; if it still fails it becomes the new best.
func (m *minimiser) try(c *Case) bool {
	if v := m.fails(c); v != nil {
		m.best, m.bestV = c, v
		return true
	}
	return false
}

func minimise(c *Case, v *Violation) (*Case, *Violation, bool) {
	m := &minimiser{want: v, deadline: time.Now().Add(20 * time.Second), best: c.clone(), bestV: v}
	if v.Class == "hang" {
		// each attempt costs a whole step budget
		m.deadline = time.Now().Add(8 * time.Second)
	}
	// The starting point must reproduce in-process, otherwise keep the original.
	if m.fails(m.best) == nil {
		return c, v, false
	}
	for round := 0; round < 4; round++ {
		before := caseSize(m.best)
		m.dropTasks()
		m.dropOps()
		m.dropFaults()
		m.dropSwitches()
		m.simplifyData()
		m.shrinkTexts()
		m.sequentialise()
		if caseSize(m.best) >= before {
			break
		}
	}
	return m.best, m.bestV, true
}

func (m *minimiser) dropTasks() {
	for t := len(m.best.Tasks) - 1; t >= 0 && len(m.best.Tasks) > 1; t-- {
		c := m.best.clone()
		c.Tasks = append(c.Tasks[:t], c.Tasks[t+1:]...)
		// switch entries name tasks by index: renumber
		var sw = c.Switches[:0]
		for _, s := range c.Switches {
			if s.Task == t || s.To == t {
				continue
			}
			if s.Task > t {
				s.Task--
			}
			if s.To > t {
				s.To--
			}
			sw = append(sw, s)
		}
		c.Switches = sw
		if c.First == t {
			c.First = 0
		} else if c.First > t {
			c.First--
		}
		m.try(c)
	}
}

func (m *minimiser) dropOps() {
	for t := range m.best.Tasks {
		for i := len(m.best.Tasks[t]) - 1; i >= 0; i-- {
			if t >= len(m.best.Tasks) || i >= len(m.best.Tasks[t]) {
				continue
			}
			c := m.best.clone()
			c.Tasks[t] = append(c.Tasks[t][:i], c.Tasks[t][i+1:]...)
			m.try(c)
		}
	}
	for i := len(m.best.Defs) - 1; i >= 1; i-- {
		if i >= len(m.best.Defs) {
			continue
		}
		c := m.best.clone()
		c.Defs = append(c.Defs[:i], c.Defs[i+1:]...)
		m.try(c)
	}
}

func (m *minimiser) dropFaults() {
	if len(m.best.Faults) > 0 {
		c := m.best.clone()
		c.Faults = nil
		if m.try(c) {
			return
		}
	}
	for i := len(m.best.Faults) - 1; i >= 0; i-- {
		if i >= len(m.best.Faults) {
			continue
		}
		c := m.best.clone()
		c.Faults = append(c.Faults[:i], c.Faults[i+1:]...)
		m.try(c)
	}
}

func (m *minimiser) dropSwitches() {
	if len(m.best.Switches) == 0 {
		return
	}
	c := m.best.clone()
	c.Switches = nil
	if m.try(c) {
		return
	}
	// ddmin over the switch list
	n := 2
	for len(m.best.Switches) >= 2 && n <= len(m.best.Switches) {
		sw := m.best.Switches
		chunk := (len(sw) + n - 1) / n
		reduced := false
		for i := 0; i < len(sw); i += chunk {
			j := i + chunk
			if j > len(sw) {
				j = len(sw)
			}
			c := m.best.clone()
			c.Switches = append(append([]simrt.Switch(nil), sw[:i]...), sw[j:]...)
			if m.try(c) {
				reduced = true
				break
			}
		}
		if reduced {
			if n > 2 {
				n--
			}
		} else {
			if n >= len(sw) {
				break
			}
			n *= 2
			if n > len(sw) {
				n = len(sw)
			}
		}
	}
}

func (m *minimiser) simplifyData() {
	for _, op := range m.best.allOps() {
		if op.Data == nil {
			continue
		}
		c := m.best.clone()
		o := c.opByID(op.ID)
		o.Data = benignData()
		if hashJSON(o.Data) == hashJSON(op.Data) {
			continue
		}
		m.try(c)
	}
	// receivers
	for _, op := range m.best.allOps() {
		if op.Recv == "" || op.Kind == opExec || op.Kind == opExecHTML || op.Kind == opName {
			continue
		}
		c := m.best.clone()
		c.opByID(op.ID).Recv = ""
		m.try(c)
	}
}

var tokRe = regexp.MustCompile(`\{\{[^}]*\}\}|<[^<>{}]*>|[^<{]+|.`)

func isOpen(tok string) bool {
	t := strings.TrimLeft(strings.TrimPrefix(tok, "{{"), "- ")
	for _, k := range []string{"if ", "range ", "with ", "define ", "block "} {
		if strings.HasPrefix(t, k) {
			return true
		}
	}
	return false
}

func isEnd(tok string) bool {
	t := strings.Trim(strings.TrimSuffix(strings.TrimPrefix(tok, "{{"), "}}"), "- ")
	return t == "end"
}

// shrinkText tries to delete parts of one template text; set installs a
// candidate text into a cloned case.
func (m *minimiser) shrinkText(get func(*Case) string, set func(*Case, string)) {
	for pass := 0; pass < 3; pass++ {
		cur := get(m.best)
		toks := tokRe.FindAllString(cur, -1)
		if len(toks) <= 1 {
			return
		}
		// matching {{end}} for each opener
		match := map[int]int{}
		var stack []int
		for i, t := range toks {
			if !strings.HasPrefix(t, "{{") {
				continue
			}
			if isOpen(t) {
				stack = append(stack, i)
			} else if isEnd(t) && len(stack) > 0 {
				match[stack[len(stack)-1]] = i
				stack = stack[:len(stack)-1]
			}
		}
		progress := false
		removed := make([]bool, len(toks))
		build := func() string {
			var b strings.Builder
			for i, t := range toks {
				if !removed[i] {
					b.WriteString(t)
				}
			}
			return b.String()
		}
		attempt := func(idx ...int) bool {
			for _, i := range idx {
				if removed[i] {
					return false
				}
			}
			for _, i := range idx {
				removed[i] = true
			}
			c := m.best.clone()
			set(c, build())
			if m.try(c) {
				progress = true
				return true
			}
			for _, i := range idx {
				removed[i] = false
			}
			return false
		}
		// whole blocks first, then block markers only, then single tokens
		for i := 0; i < len(toks); i++ {
			if j, ok := match[i]; ok {
				var span []int
				for k := i; k <= j; k++ {
					if !removed[k] {
						span = append(span, k)
					}
				}
				attempt(span...)
			}
		}
		for i := 0; i < len(toks); i++ {
			if j, ok := match[i]; ok && !removed[i] && !strings.Contains(toks[i], "define") {
				attempt(i, j)
			}
		}
		for i := 0; i < len(toks); i++ {
			if !removed[i] {
				if _, ok := match[i]; !ok && !isEnd(toks[i]) {
					attempt(i)
				}
			}
		}
		if !progress {
			return
		}
	}
}

func (m *minimiser) shrinkTexts() {
	for _, op := range m.best.allOps() {
		if op.Kind != opParse || op.Text == "" {
			continue
		}
		id := op.ID
		m.shrinkText(func(c *Case) string { return c.opByID(id).Text }, func(c *Case, s string) { c.opByID(id).Text = s })
	}
	for _, f := range sortedKeys(m.best.Disk) {
		f := f
		m.shrinkText(func(c *Case) string { return c.Disk[f] }, func(c *Case, s string) { c.Disk[f] = s })
	}
}

// sequentialise: if the violation survives with all operations in one task it
// does not need a schedule at all.
func (m *minimiser) sequentialise() {
	if len(m.best.Tasks) < 2 {
		return
	}
	c := m.best.clone()
	c.Tasks = [][]Op{flatten(c.Tasks)}
	c.Switches = nil
	c.First = 0
	m.try(c)
}

// ---------------------------------------------------------------- races --

// The race detector reports each pair of code locations once per process, so
// a race case cannot be shrunk in-process: every candidate is replayed in a
// fresh process of this (race-build) binary.

func raceReproduces(c *Case, sig string) bool {
	self, err := os.Executable()
	if err != nil {
		return false
	}
	dir, err := os.MkdirTemp(*fScratch, "racemin-")
	if err != nil {
		return false
	}
	defer os.RemoveAll(dir)
	path := filepath.Join(dir, "case.json")
	b, _ := json.Marshal(c)
	if os.WriteFile(path, b, 0o644) != nil {
		return false
	}
	cmd := exec.Command(self, "-replay", path)
	cmd.Env = append(os.Environ(), "GORACE=halt_on_error=0 exitcode=0 log_path="+filepath.Join(dir, "race"))
	out, _ := cmd.CombinedOutput()
	return strings.Contains(string(out), "sig="+sig+" ")
}

func minimiseRace(c *Case, v *Violation) (*Case, bool) {
	deadline := time.Now().Add(90 * time.Second)
	attempts := 0
	best := c.clone()
	try := func(cand *Case) bool {
		if attempts >= 60 || time.Now().After(deadline) {
			return false
		}
		attempts++
		if raceReproduces(cand, v.Sig) {
			best = cand
			return true
		}
		return false
	}
	if !try(best.clone()) {
		return c, false // does not even replay in a fresh process: report as found
	}
	// no faults
	if len(best.Faults) > 0 {
		cand := best.clone()
		cand.Faults = nil
		try(cand)
	}
	// fewer tasks
	for t := len(best.Tasks) - 1; t >= 0 && len(best.Tasks) > 2; t-- {
		cand := best.clone()
		cand.Tasks = append(cand.Tasks[:t], cand.Tasks[t+1:]...)
		var sw []simrt.Switch
		for _, s := range cand.Switches {
			if s.Task == t || s.To == t {
				continue
			}
			if s.Task > t {
				s.Task--
			}
			if s.To > t {
				s.To--
			}
			sw = append(sw, s)
		}
		cand.Switches = sw
		if cand.First == t {
			cand.First = 0
		} else if cand.First > t {
			cand.First--
		}
		try(cand)
	}
	// fewer operations
	for t := range best.Tasks {
		for i := len(best.Tasks[t]) - 1; i >= 0; i-- {
			if t >= len(best.Tasks) || i >= len(best.Tasks[t]) {
				continue
			}
			cand := best.clone()
			cand.Tasks[t] = append(cand.Tasks[t][:i], cand.Tasks[t][i+1:]...)
			try(cand)
		}
	}
	// no preemptions at all (a race does not need them: the detector judges ordering, not timing)
	if len(best.Switches) > 0 {
		cand := best.clone()
		cand.Switches = nil
		if !try(cand) && len(best.Switches) > 1 {
			cand = best.clone()
			cand.Switches = cand.Switches[:len(cand.Switches)/2]
			try(cand)
		}
	}
	// benign data
	for _, op := range best.allOps() {
		if op.Data == nil {
			continue
		}
		cand := best.clone()
		cand.opByID(op.ID).Data = benignData()
		try(cand)
	}
	return best, attempts > 1
}
