package main

func selfTest(kind string) int { return 0 }
