package main

import (
	"fmt"
	"os"
	"sync"

	"github.com/google/safehtml/simrt"
)

// Self-tests of the simulator itself (run by setup.sh / selftest.sh).
//
//	-selftest determinism -prop Cxx -from a -to b
//	    for every run index: generate the case, execute it in record mode,
//	    execute the resulting explicit case again, demand identical event-log
//	    and result hashes, and print one line per run so that the caller can
//	    diff the output of several processes (different GOMAXPROCS, builds).
//	-selftest racetoy
//	    race build only: a known racy toy must be reported, a known race-free
//	    toy must not (DESIGN §3.4).

func resultDigest(o *Outcome) uint64 {
	h := uint64(1469598103934665603)
	for _, r := range o.flat() {
		h = h*1099511628211 ^ hashString(fmt.Sprintf("%d|%d|%s|%s|%q|%v|%v|%v|%v|%d|%d|%s|%s", r.OpID, r.Task, r.Kind, r.Target, r.Out, r.Err == "", r.Probes, r.Names, r.Found, r.Inv, r.Ret, r.Panic, r.Skipped))
	}
	return h
}

func selfTest(kind string) int {
	switch kind {
	case "determinism":
		return selfTestDeterminism()
	case "racetoy":
		return selfTestRaceToy()
	}
	fmt.Fprintln(os.Stderr, "unknown selftest", kind)
	return 2
}

func selfTestDeterminism() int {
	warmUp()
	bad := 0
	for run := *fFrom; run < *fTo; run++ {
		c := generate(*fProp, runSeedFor(*fSeed, *fProp, run), run)
		o1 := runCase(c) // record mode; c becomes explicit
		h1 := fmt.Sprintf("%x/%x/%x/%d", o1.DefSt.Hash, o1.Stats.Hash, resultDigest(o1), o1.Stats.Switches)
		o2 := runCase(c.clone())
		h2 := fmt.Sprintf("%x/%x/%x/%d", o2.DefSt.Hash, o2.Stats.Hash, resultDigest(o2), o2.Stats.Switches)
		if h1 != h2 {
			bad++
			fmt.Printf("run %d RECORD/REPLAY MISMATCH %s vs %s\n", run, h1, h2)
			if os.Getenv("SELFTEST_VERBOSE") != "" {
				a, b := o1.flat(), o2.flat()
				for i := range a {
					if i < len(b) {
						x := fmt.Sprintf("%d|%s|%s|%q|%q|%v|%v|%d|%d|%s", a[i].OpID, a[i].Kind, a[i].Target, a[i].Out, a[i].Err, a[i].Probes, a[i].Names, a[i].Inv, a[i].Ret, a[i].Panic)
						y := fmt.Sprintf("%d|%s|%s|%q|%q|%v|%v|%d|%d|%s", b[i].OpID, b[i].Kind, b[i].Target, b[i].Out, b[i].Err, b[i].Probes, b[i].Names, b[i].Inv, b[i].Ret, b[i].Panic)
						if x != y {
							fmt.Printf("   A %s\n   B %s\n", x, y)
						}
					}
				}
			}
			continue
		}
		// verdict of the oracle as well (twins included)
		cr := check(c.clone())
		sig := ""
		for _, v := range cr.viol {
			sig += v.Sig + ";"
		}
		fmt.Printf("run %d %s viol=%s\n", run, h1, sig)
	}
	if bad > 0 {
		return 2
	}
	return 0
}

var (
	toyX  int
	toyMu sync.Mutex
)

func toyRun(locked bool) {
	simrt.Begin(simrt.Config{})
	body := func() {
		if locked {
			simrt.Lock(&toyMu)
		}
		toyX++
		if locked {
			simrt.Unlock(&toyMu)
		}
	}
	simrt.Go(body)
	simrt.Go(body)
	simrt.Run()
}

func selfTestRaceToy() int {
	if !simrt.RaceBuild {
		fmt.Println("racetoy: not a race build, nothing to test")
		return 0
	}
	rl := newRaceLog()
	if rl.path == "" {
		fmt.Fprintln(os.Stderr, "racetoy: GORACE log_path not set")
		return 2
	}
	warmUp()
	rl.newReports()
	// 1. a clean library workload under an interleaved schedule: no report
	for run := 0; run < 40; run++ {
		c := generate("C09", runSeedFor(4242, "C09", run), run)
		runCase(c)
	}
	if rep := rl.newReports(); rep != "" {
		fmt.Fprintf(os.Stderr, "racetoy: the simulator or the unchanged library was flagged:\n%s\n", clipN(rep, 3000))
		return 2
	}
	// 2. two tasks touching one variable under the code's own mutex: no report
	toyRun(true)
	if rep := rl.newReports(); rep != "" {
		fmt.Fprintf(os.Stderr, "racetoy: race-free toy was flagged:\n%s\n", clipN(rep, 2000))
		return 2
	}
	// 3. same without the mutex, run strictly one after the other: must be reported
	toyRun(false)
	if rep := rl.newReports(); rep == "" {
		fmt.Fprintln(os.Stderr, "racetoy: racy toy was NOT reported: the scheduler's hand-over is visible to the race detector")
		return 2
	}
	fmt.Println("racetoy: ok (clean workload 0 reports, locked toy 0 reports, racy toy reported)")
	return 0
}
