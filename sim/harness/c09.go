package main

func checkC09(cr *checkResult) {
	checkTotal(cr, "C09")
}
