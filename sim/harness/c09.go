package main

import (
	"bytes"
	"fmt"
	"sort"
	"strings"

	"github.com/anishathalye/porcupine"
)

// C09, oracle 2: every concurrent history must be linearizable with respect
// to the implementation run sequentially.  The model state is the ordered
// list of distinct template names whose first top-level execution has taken
// effect: that is the only thing an execute/read call can change in a set
// (analysis is data-independent and happens once per template).  Step replays,
// on a fresh twin set, benign first executions in state order followed by the
// operation, and compares.

type c09In struct {
	op *Op
}

type c09Model struct {
	cr *checkResult
}

func (m *c09Model) prefixOps(state string) []Op {
	if state == "" {
		return nil
	}
	var ops []Op
	for _, n := range strings.Split(state, "\x00") {
		ops = append(ops, Op{Kind: opExecTmpl, Set: 0, Name: n, Data: benignData()})
	}
	return ops
}

func firstExecName(op *Op, r *Result) (string, bool) {
	switch op.Kind {
	case opExec, opExecHTML:
		// executed through the handle: the name is the receiver's
		if r != nil && r.Target != "" {
			return r.Target, true
		}
		return op.Recv, op.Recv != ""
	case opExecTmpl, opExecTmplHTML:
		return op.Name, true
	}
	return "", false
}

func stateHas(state, name string) bool {
	if state == "" {
		return false
	}
	for _, n := range strings.Split(state, "\x00") {
		if n == name {
			return true
		}
	}
	return false
}

// sameResult: does the observed result r equal the sequential result tr?
func sameResult(r, tr *Result) (bool, string) {
	if tr == nil {
		return true, "" // reference aborted: inconclusive, never a violation
	}
	switch r.Kind {
	case opLookup:
		if r.Found != tr.Found || r.Target != tr.Target {
			return false, fmt.Sprintf("Lookup: found=%v name=%q, sequentially found=%v name=%q", r.Found, r.Target, tr.Found, tr.Target)
		}
		return true, ""
	case opTemplates, opDefined:
		if strings.Join(r.Names, ",") != strings.Join(tr.Names, ",") {
			return false, fmt.Sprintf("%s: %v, sequentially %v", r.Kind, r.Names, tr.Names)
		}
		return true, ""
	case opName:
		if r.Target != tr.Target {
			return false, fmt.Sprintf("Name: %q, sequentially %q", r.Target, tr.Target)
		}
		return true, ""
	}
	if abortingFault(r) {
		if !bytes.HasPrefix(tr.Out, r.Out) {
			return false, fmt.Sprintf("aborted by %v after writing %q, not a prefix of the sequential %q", r.Fired, clip(string(r.Out)), clip(string(tr.Out)))
		}
		if r.Err == "" && (r.FailedAt != 0 || !hasFired(r, "write:")) {
			return false, fmt.Sprintf("fault %v fired but the call returned nil", r.Fired)
		}
		return true, ""
	}
	if (r.Err == "") != (tr.Err == "") {
		return false, fmt.Sprintf("err=%q, sequentially err=%q", clip(r.Err), clip(tr.Err))
	}
	// "returns exactly what the same call returns": the kind of error too
	// (analysis / run-time / other, and the analysis error code); texts are
	// not compared, they may embed map-ordered listings.
	if r.ErrClass != tr.ErrClass || r.ErrCode != tr.ErrCode {
		return false, fmt.Sprintf("error %q (%s/%d), sequentially %q (%s/%d)", clip(r.Err), r.ErrClass, r.ErrCode, clip(tr.Err), tr.ErrClass, tr.ErrCode)
	}
	if !bytes.Equal(r.Out, tr.Out) {
		return false, fmt.Sprintf("wrote %q, sequentially %q", clip(string(r.Out)), clip(string(tr.Out)))
	}
	return true, ""
}

func checkC09(cr *checkResult) {
	checkTotal(cr, "C09")
	o := cr.out
	c := cr.tw.c
	if len(o.TaskRes) == 0 || o.Stats.Deadlock || o.Stats.Hang {
		return
	}
	m := &c09Model{cr: cr}
	var ops []porcupine.Operation
	for t, rs := range o.TaskRes {
		for i, r := range rs {
			if !r.Done || r.Skipped != "" || r.Panic != "" || r.Aborted != "" {
				continue
			}
			ops = append(ops, porcupine.Operation{
				ClientId: t, Input: &c.Tasks[t][i], Call: int64(r.Inv), Output: r, Return: int64(r.Ret),
			})
		}
	}
	if len(ops) == 0 {
		return
	}
	// porcupine's own timeout leaves its search goroutine running, which would
	// overlap the next simulated run; bound the search by a step budget instead
	// and treat an exhausted budget as inconclusive.
	steps, gaveUp := 0, false
	model := porcupine.Model{
		Init: func() interface{} { return "" },
		Step: func(state, input, output interface{}) (bool, interface{}) {
			steps++
			if steps > 6000 || cr.tw.builds > 400 {
				gaveUp = true
				return false, state
			}
			st := state.(string)
			op := input.(*Op)
			r := output.(*Result)
			tr := cr.tw.after(m.prefixOps(st), op)
			ok, _ := sameResult(r, tr)
			if !ok {
				return false, st
			}
			if n, is := firstExecName(op, r); is && !stateHas(st, n) {
				if st == "" {
					st = n
				} else {
					st = st + "\x00" + n
				}
			}
			return true, st
		},
		Equal: func(a, b interface{}) bool { return a.(string) == b.(string) },
	}
	res := porcupine.CheckOperationsTimeout(model, ops, 0)
	if gaveUp {
		res = porcupine.Unknown
	}
	switch res {
	case porcupine.Ok:
		cr.note("linearizable")
	case porcupine.Unknown:
		cr.note("linearizability_inconclusive")
	case porcupine.Illegal:
		// Explain: compare every call with the sequential result after the
		// calls that returned before it was invoked (a necessary ordering).
		var why []string
		sort.Slice(ops, func(i, j int) bool { return ops[i].Call < ops[j].Call })
		for _, p := range ops {
			r := p.Output.(*Result)
			op := p.Input.(*Op)
			if tr := cr.tw.call(op); tr != nil {
				if ok, d := sameResult(r, tr); !ok {
					why = append(why, fmt.Sprintf("op %d (task %d, %s %q): %s [vs fresh set]", r.OpID, r.Task, r.Kind, r.Target, d))
				}
			}
		}
		opid := -1
		if len(ops) > 0 {
			opid = ops[len(ops)-1].Output.(*Result).OpID
		}
		cr.add("C09", "nonlinearizable", opid, "nonlinearizable", "no sequential order of the %d calls explains the results observed under this schedule (%d preemptions). Differences from a fresh set: %s", len(ops), o.Stats.Switches, strings.Join(why, "; "))
	}
}
