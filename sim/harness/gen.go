package main

import (
	"fmt"
	"math/rand"
	"strings"
)

// The generator is the only consumer of the run's PRNG.  It produces a Case;
// nothing downstream draws random numbers (the live schedule recorder in simrt
// has its own stream seeded from Case.SchedSeed and writes its decisions back
// into the case).

type gen struct {
	r      *rand.Rand
	c      *Case
	nextID int
	probeN int

	helpers []string          // helper names, in definition order
	hkind   map[string]string // helper name -> kind
	tops    []string
	bads    []string
	bodies  map[string]string // name -> body
	order   []string          // definition order of all names
	blocks  []string          // names defined by {{block}}
	big     bool              // thorough tier: larger sets and histories
	confuse string            // "" undecided, "-" no, else the text of a type-confusion case
}

// n draws base+[0,span); the big profile adds span on top.
func (g *gen) n(base, span int) int {
	v := base + g.r.Intn(span)
	if g.big {
		v += span
	}
	return v
}

func newGen(seed uint64, prop string, run int) *gen {
	g := &gen{r: rand.New(rand.NewSource(int64(seed))), hkind: map[string]string{}, bodies: map[string]string{}}
	g.c = &Case{Prop: prop, Run: run, RunSeed: seed}
	g.c.MapSalt = g.r.Uint64()
	g.c.TwinSalt = g.r.Uint64()
	g.c.SchedSeed = g.r.Uint64()
	return g
}

func (g *gen) id() int { g.nextID++; return g.nextID }

func (g *gen) pick(ss []string) string { return ss[g.r.Intn(len(ss))] }

func (g *gen) chance(p float64) bool { return g.r.Float64() < p }

func (g *gen) probe() string {
	g.probeN++
	return fmt.Sprintf(`{{probe "p%d"}}`, g.probeN)
}

// ----------------------------------------------------------------- pieces --

// wrappers put a payload (·) into a context.  All are balanced: they start and
// end in the HTML text context.
var wrappers = []string{
	`<p>·</p>`,
	`·`,
	`<div title="·">x</div>`,
	`<div title='·'>x</div>`,
	`<a href="·">l</a>`,
	`<a href="/p/·">l</a>`,
	`<a href="/p?q=·">l</a>`,
	`<a href='/p?q=·&r=1'>l</a>`,
	`<img src="/i/·" alt="·">`,
	`<script src="/static/·"></script>`,
	`<textarea>·</textarea>`,
	`<title>·</title>`,
	`<span data-x="·">y</span>`,
	`<P TITLE="·">x</P>`,
	`<b>·</b><i>·</i>`,
	`<input value="·">`,
	`<q cite="·">c</q>`,
	`<p dir="ltr" lang="·">y</p>`,
	`<a href="javascript:void(0)">·</a>`, // valid, but an analysis error once the set is CSPCompatible
	`<span onclick="f()">·</span>`,       // same
}

// typedWrappers only accept safe-type values at run time (a plain string is a
// run-time sanitizer error raised after part of the output was produced).
var typedWrappers = []string{
	`<p id="·">x</p>`,
	`<p style="·">x</p>`,
	`<script>·</script>`,
	`<style>·</style>`,
	`<link rel="stylesheet" href="·">`,
	`<iframe src="·"></iframe>`,
}

// failure seeds: bodies whose contextual analysis is expected to fail, one per
// way named in the statement of C05 (the fresh twin decides what really fails).
var failSeeds = []string{
	`{{if .C}}<a href="{{else}}<p title="{{end}}x">y`,            // branches end in different contexts
	`<p {{range .L}}title="{{end}}>x</p>`,                        // range re-entry in a different context
	`{{range .L}}<a href="{{end}}`,                               // range body ends in a different context
	`<a href="`,                                                  // non-text end context
	`<div title='x`,                                              // non-text end context
	`<script>var x = 1;`,                                         // ends inside script
	`<{{.F}}>x`,                                                  // action in a tag name
	`<p {{.F}}="x">y</p>`,                                        // action in an attribute name
	`<p title={{.F}}>y</p>`,                                      // action in an unquoted value
	`<blink foo="{{.F}}">y</blink>`,                              // unknown element / attribute
	`<p onclick="{{.F}}">y</p>`,                                  // disallowed attribute
	`<a href="javascript:{{.F}}">y</a>`,                          // unsafe scheme
	`<a href="{{.F}}{{.G}}">y</a>`,                               // second action: scheme decided by first? (twin decides)
	`<a href="x{{.F}}">y</a>`,                                    // prefix that could become a scheme
	`<a href="{{if .C}}/x{{else}}y{{end}}{{.F}}">z</a>`,          // ambiguous prefix from a branch
	`<a href="/x&#x{{.F}}">y</a>`,                                // prefix ends in a char-ref prefix
	`<a href="/x%4{{.F}}">y</a>`,                                 // prefix ends in a partial percent escape
	`<p>{{template "nosuch" .}}</p>`,                             // undefined callee
	`<p>{{template "EMPTY" .}}</p>`,                              // empty callee (declared, never given a body)
	`<p>{{.F | html | urlquery}}</p>`,                            // predefined escaper not last
	`<script src="{{.F}}"></script>x<script>{{template "H0" .}}`, // ends in script
	`<!-- {{.F}}`,                                                // ends in comment
	"<script>var s = `a${{{.F}}}`;</script>",                     // action inside a JS template literal
	"<script>var s = `unclosed;</script><p>{{.F}}</p>",           // unbalanced JS template literal
	`<ul>{{range .L}}<li {{end}}</ul>`,                           // range body ends inside a tag
	`{{with .W}}<a href="{{else}}<a title="{{end}}x">y</a>`,      // with/else branches differ
}

// recursive helpers with no computable output context.
var failRecursive = []string{
	`{{if .C}}{{template "·" .W}}{{end}}{{.F}}<a title="`,
	`{{with .W}}{{template "·" .}}{{end}}<div title='{{.F}}`,
	`<p {{if .C}}{{template "·" .W}}{{end}}`,
	`{{if .C}}<a href="{{template "·" .W}}{{end}}`,
	`<p title="{{if .C}}{{template "·" .W}}"{{end}}>`,
	`{{if .C}}{{template "·" .W}}<b{{end}}`,
}

// closers bring a context left open by a callee back to text.
var closers = []string{
	`">x</a>`, `'>x</div>`, `x">y</p>`, `>x</p>`, ` title="t">x</p>`, `-->`, `</script>`, `</style>`, `</textarea>`, `</title>`, `"></script>`, `=x>y`,
}

var helperValueBodies = []string{
	`{{.}}`,
	`[{{.}}]`,
	`{{.}}-{{.}}`,
	`{{if .}}{{.}}{{else}}none{{end}}`,
	`static`,
	`{{with .}}{{.}}{{end}}`,
	`{{. | html}}`,
	`{{$v := .}}{{$v}}`,
}

var helperHTMLBodies = []string{
	`<b>{{.}}</b>`,
	`<i title="{{.}}">{{.}}</i>`,
	`<em>·{{.}}</em>`,
	`<a href="{{.}}">h</a>`,
	`<span>{{.}}</span><!-- c -->`,
	`<u>{{range .}}{{.}},{{end}}</u>`,
}

func (g *gen) leafField() string {
	return g.pick([]string{".F", ".G", ".", ".F", ".G", ".W", ".M", ".U"})
}

// inner produces a payload for a wrapper.
func (g *gen) inner(depth int, allowHelpers bool) string {
	n := g.r.Intn(100)
	switch {
	case n < 22:
		return "{{" + g.leafField() + "}}"
	case n < 55 && allowHelpers && len(g.helpers) > 0:
		h := g.pick(g.helpers)
		arg := g.pick([]string{".", ".F", ".G", ".F", ".W"})
		return fmt.Sprintf(`{{template %q %s}}`, h, arg)
	case n < 63 && depth < 2:
		return fmt.Sprintf(`{{if .C}}%s{{else}}%s{{end}}`, g.inner(depth+1, allowHelpers), g.inner(depth+1, allowHelpers))
	case n < 70 && depth < 2:
		return fmt.Sprintf(`{{range .L}}%s{{end}}`, g.pick([]string{"{{.}}", "{{.}},", "x"}))
	case n < 75 && depth < 2:
		return fmt.Sprintf(`{{with .W}}%s{{end}}`, g.pick([]string{"{{.}}", "w{{.}}"}))
	case n < 80:
		return g.pick([]string{"lit", "a b", "", "x&amp;y", "1"})
	case n < 84:
		return `{{val .F}}`
	case n < 87:
		return `{{.F | html}}`
	case n < 88:
		// predefined escaper with several arguments (rewritten through _eval_args_)
		return g.pick([]string{`{{html .F .G}}`, `{{urlquery .G .F}}`, `{{html .F "-" .W}}`})
	case n < 91:
		return `{{$x := .G}}{{$x}}`
	case n < 94:
		return `{{.S}}`
	case n < 97 && depth < 1:
		// {{block}} defines a further member of the set in passing
		name := fmt.Sprintf("B%d", len(g.blocks))
		g.blocks = append(g.blocks, name)
		return fmt.Sprintf(`{{block %q .}}%s{{end}}`, name, g.pick([]string{"{{.}}", "{{.F}}", "b{{.G}}", "blk"}))
	default:
		return "{{" + g.leafField() + "}}"
	}
}

func fill(w, payload func() string, tmpl string) string {
	var b strings.Builder
	for _, r := range tmpl {
		if r == '·' {
			b.WriteString(payload())
		} else {
			b.WriteRune(r)
		}
	}
	return b.String()
}

func (g *gen) fragment(allowHelpers bool) string {
	var w string
	n := g.r.Intn(100)
	switch {
	case n < 82:
		w = g.pick(wrappers)
	case n < 92:
		w = g.pick(typedWrappers)
	default:
		// text-context block construct around fragments
		switch g.r.Intn(3) {
		case 0:
			return fmt.Sprintf(`{{if .C}}%s{{else}}%s{{end}}`, g.fragment(allowHelpers), g.pick([]string{"", "<hr>", "e"}))
		case 1:
			return fmt.Sprintf(`{{range .L}}%s{{else}}none{{end}}`, g.pick([]string{"<li>{{.}}</li>", `<a href="/r/{{.}}">r</a>`, "{{.}} "}))
		default:
			return fmt.Sprintf(`{{with .W}}%s{{end}}`, g.pick([]string{"<s>{{.}}</s>", `<p title="{{.}}">w</p>`}))
		}
	}
	return fill(nil, func() string { return g.inner(0, allowHelpers) }, w)
}

func (g *gen) topBody() string {
	var b strings.Builder
	b.WriteString(g.probe())
	n := 1 + g.r.Intn(4)
	for i := 0; i < n; i++ {
		b.WriteString(g.fragment(true))
		if g.chance(0.25) {
			b.WriteString(g.probe())
		}
	}
	return b.String()
}

func (g *gen) define(name, body string) {
	if _, ok := g.bodies[name]; !ok {
		g.order = append(g.order, name)
	}
	g.bodies[name] = body
}

// genSet chooses the templates of a set.  nBad failure seeds are included.
func (g *gen) genSet(nHelpers, nTops, nBad int, extras bool) {
	for i := 0; i < nHelpers; i++ {
		name := fmt.Sprintf("H%d", i)
		var body, kind string
		n := g.r.Intn(100)
		switch {
		case n < 45:
			kind, body = "value", g.pick(helperValueBodies)
		case n < 65:
			kind = "html"
			body = strings.Replace(g.pick(helperHTMLBodies), "·", g.probe(), 1)
		case n < 80 && i > 0:
			kind = "nested"
			callee := g.helpers[g.r.Intn(len(g.helpers))]
			body = g.pick([]string{
				fmt.Sprintf(`{{template %q .}}`, callee),
				fmt.Sprintf(`({{template %q .}}|{{template %q .}})`, callee, callee),
				fmt.Sprintf(`{{if .}}{{template %q .}}{{end}}`, callee),
			})
		case n < 90:
			kind = "recursive"
			body = g.pick([]string{
				fmt.Sprintf(`{{if .}}{{template %q ""}}{{end}}x`, name),
				fmt.Sprintf(`{{with .}}{{template %q ""}}{{.}}{{end}}`, name),
				fmt.Sprintf(`{{range .}}{{template %q ""}}{{end}}r`, name),
			})
		default:
			kind = "opener"
			body = g.pick([]string{`<a href="`, `<div title="`, `<p `, `<b>`, `<span data-x='`})
		}
		g.helpers = append(g.helpers, name)
		g.hkind[name] = kind
		g.define(name, body)
	}
	for i := 0; i < nTops; i++ {
		name := fmt.Sprintf("T%d", i)
		g.tops = append(g.tops, name)
		g.define(name, g.topBody())
	}
	// callers that close what an opener opened
	for _, h := range g.helpers {
		if g.hkind[h] != "opener" || !g.chance(0.8) {
			continue
		}
		var closer string
		switch g.bodies[h] {
		case `<a href="`:
			closer = `/x">l</a>`
		case `<div title="`:
			closer = `t">d</div>`
		case `<p `:
			closer = `title="q">p</p>`
		case `<b>`:
			closer = `bold</b>`
		default:
			closer = `v'>s</span>`
		}
		name := fmt.Sprintf("T%d", len(g.tops))
		g.tops = append(g.tops, name)
		g.define(name, g.probe()+fmt.Sprintf(`{{template %q}}`, h)+closer+g.fragment(true))
		if g.chance(0.5) {
			name2 := fmt.Sprintf("T%d", len(g.tops))
			g.tops = append(g.tops, name2)
			g.define(name2, g.probe()+fmt.Sprintf(`{{template %q}}`, h))
		}
	}
	for i := 0; i < nBad; i++ {
		name := fmt.Sprintf("BAD%d", i)
		var body string
		if g.chance(0.15) {
			body = strings.ReplaceAll(g.pick(failRecursive), "·", name)
		} else {
			body = g.pick(failSeeds)
		}
		if g.chance(0.7) {
			body = g.probe() + body
		}
		if g.chance(0.3) {
			body = g.fragment(true) + body
		}
		g.bads = append(g.bads, name)
		g.define(name, body)
		// templates that reach the bad one through {{template}}
		if g.chance(0.7) {
			cn := fmt.Sprintf("T%d", len(g.tops))
			g.tops = append(g.tops, cn)
			w := g.pick([]string{`<p>·</p>`, `·`, `<div title="·">x</div>`, `<a href="/p?q=·">l</a>`, `<p>·</p>`})
			if g.chance(0.5) {
				// a caller that closes whatever the callee may have left open
				// (legitimate when the callee merely ends in a non-text context)
				w = "·" + g.pick(closers)
			}
			g.define(cn, g.probe()+strings.Replace(w, "·", fmt.Sprintf(`{{template %q .}}`, name), 1)+g.fragment(true))
		}
	}
	if extras {
		// C08 extras: constructs outside the core grammar.
		ex := []string{
			`{{range .L}}{{break}}{{end}}`,
			`{{range .L}}{{if .}}{{continue}}{{end}}<p>{{.}}</p>{{end}}`,
			`{{/* comment */}}<p>{{- .F -}}</p>`,
			`{{if .C}}a{{else if .F}}b{{else}}c{{end}}`,
			`{{with .W}}w{{else with .F}}f{{end}}`,
			`<p>{{template "X0" .}}</p>{{define "X0"}}<b>{{.F}}</b>{{end}}`,
			`<p title="a<b">{{.F}}</p>`,
			`< p>{{.F}}</p>`,
			`<p>{{.F}}</p </div>`,
			"<script>var s = `a${b}c`;</script>{{.F}}",
			"<script>var s = `a${{{.F}}}`;</script>",
			`<script>var s = "</script>";</script>{{.F}}`,
			`<!-- unclosed {{.F}}`,
			`<!DOCTYPE html><p>{{.F}}</p>`,
			`<p>{{.F}}<`,
			`<p title="{{.F}}`,
			`<a href='{{.F}}">x</a>`,
			`<p>{{printf "%s" .C}}{{printf "%d" 3}}</p>`,
			`<p>{{index .L 7}}</p>`,
			`<p>{{.F.G.H}}</p>`,
			`<p>{{call .F}}</p>`,
			`<p>{{len .L}}{{slice .F 1 2}}</p>`,
			`{{template "T0" .}}{{template "T0" .}}`,
			`<svg><a xlink:href="{{.F}}">x</a></svg>`,
			`<a href="{{.F}}" href="{{.G}}">x</a>`,
			`<meta http-equiv="refresh" content="{{.F}}">`,
			`<base href="{{.F}}">`,
			`<img srcset="{{.F}} 2x, /b 3x">`,
			`<p>{{"<b>"}}{{1}}{{nil}}</p>`,
			`<p>{{.F | urlquery}}</p><a href="/q?{{.G | urlquery}}">x</a>`,
		}
		n := 1 + g.r.Intn(3)
		for i := 0; i < n; i++ {
			name := fmt.Sprintf("X%d", i+1)
			g.tops = append(g.tops, name)
			body := g.pick(ex)
			if g.chance(0.3) {
				body = mutate(g.r, body)
			}
			g.define(name, body)
		}
	}
}

// mutate applies one byte-level mutation that keeps the text mostly intact.
func mutate(r *rand.Rand, s string) string {
	if len(s) < 4 {
		return s
	}
	i := r.Intn(len(s) - 1)
	j := i + 1 + r.Intn(len(s)-i-1)
	switch r.Intn(4) {
	case 0: // delete a span
		return s[:i] + s[j:]
	case 1: // duplicate a span
		return s[:j] + s[i:j] + s[j:]
	case 2: // truncate
		return s[:j]
	default: // splice a special byte
		const special = `<>"'=&{}/ `
		return s[:i] + string(special[r.Intn(len(special))]) + s[i:]
	}
}

// ------------------------------------------------------- definition plans --

func defineText(name, body string) string {
	return fmt.Sprintf(`{{define %q}}%s{{end}}`, name, body)
}

// emitDefs turns the chosen bodies into definition operations on set 0,
// spreading them over the Parse entry points.
func (g *gen) emitDefs(useDisk bool) {
	c := g.c
	c.Defs = append(c.Defs, Op{ID: g.id(), Kind: opNew, Set: 0, Name: "root"})
	names := append([]string(nil), g.order...)
	// EMPTY is declared but never given a body.
	for _, b := range g.bodies {
		if strings.Contains(b, `"EMPTY"`) {
			c.Defs = append(c.Defs, Op{ID: g.id(), Kind: opNew, Set: 0, Name: "EMPTY"})
			break
		}
	}
	mode := g.r.Intn(4)
	if !useDisk && mode == 3 {
		mode = 1
	}
	switch mode {
	case 0: // one text with everything
		var b strings.Builder
		for _, n := range names {
			b.WriteString(defineText(n, g.bodies[n]))
		}
		if g.chance(0.5) {
			b.WriteString(g.probe() + `<p>root {{.F}}</p>`)
		}
		c.Defs = append(c.Defs, Op{ID: g.id(), Kind: opParse, Set: 0, Text: b.String()})
	case 1: // one Parse per template, receiver varies
		for i, n := range names {
			recv := ""
			if i > 0 && g.chance(0.5) {
				recv = names[g.r.Intn(i)]
			}
			c.Defs = append(c.Defs, Op{ID: g.id(), Kind: opParse, Set: 0, Recv: recv, Text: defineText(n, g.bodies[n])})
		}
	case 2: // New(name) then Parse(body) on it
		for _, n := range names {
			c.Defs = append(c.Defs, Op{ID: g.id(), Kind: opNew, Set: 0, Name: n})
			c.Defs = append(c.Defs, Op{ID: g.id(), Kind: opParse, Set: 0, Recv: n, Text: g.bodies[n]})
		}
	case 3: // files on the simulated disk
		if c.Disk == nil {
			c.Disk = map[string]string{}
		}
		files := []string{"a.tmpl", "b.tmpl", "c.tmpl", "sub/d.tmpl"}
		for i, n := range names {
			f := files[i%len(files)]
			c.Disk[f] += defineText(n, g.bodies[n])
		}
		var used []string
		for _, f := range files {
			if _, ok := c.Disk[f]; ok {
				used = append(used, f)
			}
		}
		switch g.r.Intn(3) {
		case 0:
			c.Defs = append(c.Defs, Op{ID: g.id(), Kind: opParseFiles, Set: 0, Files: used, Via: "trusted"})
		case 1:
			c.Defs = append(c.Defs, Op{ID: g.id(), Kind: opParseFS, Set: 0, Files: []string{"*.tmpl", "sub/*.tmpl"}[:1+boolInt(len(used) > 3)]})
		default:
			for _, f := range used {
				c.Defs = append(c.Defs, Op{ID: g.id(), Kind: opParseFiles, Set: 0, Files: []string{f}, Via: "const"})
			}
		}
	}
}

func boolInt(b bool) int {
	if b {
		return 1
	}
	return 0
}

// ------------------------------------------------------------------- data --

var adversarial = []string{
	"plain", "<script>alert(1)</script>", `"quoted"`, "it's", "a&b", "javascript:alert(1)", "x\x00y",
	"\x00INVALIDUTF8", "  spaced  ", "a=b&c=d", "http://e.x/p?q=1#f", "/rel/path", "</textarea>", "--><b>", "`tick`",
	"&amp;&#x3c;", "%41%", "über", strings.Repeat("A", 70), "", "0", "data:text/html,x", "a\nb", "' onx='y",
}

// colliding values: the same text under different dynamic types, and the same
// text in different calls, so that anything memoised per printed value (rather
// than per call) shows.
var collidingTexts = []string{"javascript:void0", "<b>x</b>", "/static/app.js", "color:red;", "a&b", "https://e.x/same", "x y"}
var collidingKinds = []string{"str", "str", "url", "html", "tru", "style", "stringer", "ident"}

func (g *gen) leaf(tag string) *Val {
	if g.confuse == "" {
		// one case in ten is a "type confusion" case: most of its values are
		// one and the same text under varying dynamic types
		g.confuse = "-"
		if g.chance(0.1) {
			g.confuse = g.pick(collidingTexts)
		}
	}
	if g.confuse != "-" && g.chance(0.6) {
		return &Val{K: g.pick(collidingKinds), S: g.confuse}
	}
	if g.chance(0.1) {
		return &Val{K: g.pick(collidingKinds), S: g.pick(collidingTexts)}
	}
	n := g.r.Intn(100)
	s := g.pick(adversarial) + "#" + tag
	if strings.HasPrefix(s, "\x00INVALIDUTF8") {
		// invalid UTF-8 does not survive JSON: carried hex-encoded
		return &Val{K: "strx", S: fmt.Sprintf("%x", "\xff\xfe\xc0<\x80"+tag)}
	}
	switch {
	case n < 55:
		return &Val{K: "str", S: s}
	case n < 60:
		return &Val{K: "int", I: g.r.Intn(1000)}
	case n < 63:
		return &Val{K: "nil"}
	case n < 67:
		return &Val{K: "html", S: "<b>" + tag + "</b>"}
	case n < 71:
		return &Val{K: "url", S: "https://e.x/" + tag}
	case n < 75:
		return &Val{K: "tru", S: "/static/" + tag + ".js"}
	case n < 77:
		return &Val{K: "style", S: "color:red;"}
	case n < 79:
		return &Val{K: "script", S: "var a=1;"}
	case n < 81:
		return &Val{K: "sheet", S: "p{color:red}"}
	case n < 83:
		return &Val{K: "ident", S: "id" + tag}
	case n < 86:
		return &Val{K: "ptr", P: &Val{K: "url", S: "https://p.x/" + tag}}
	case n < 88:
		return &Val{K: "typednil", S: g.pick([]string{"html", "str", "stringer"})}
	case n < 92:
		return &Val{K: "stringer", S: s}
	case n < 96:
		return &Val{K: "bool", B: g.chance(0.5)}
	default:
		return &Val{K: "ptr", P: &Val{K: "html", S: "<i>" + tag + "</i>"}}
	}
}

func (g *gen) data(tag string, depth int) *Val {
	kind := "map"
	if g.chance(0.3) {
		kind = "obj"
	}
	v := &Val{K: kind, S: "o" + tag, F: map[string]*Val{}}
	v.F["F"] = g.leaf(tag + "F")
	v.F["G"] = g.leaf(tag + "G")
	if kind == "obj" && g.chance(0.3) {
		// pointers to non-Stringer values (dereferenced by the sanitizers'
		// argument evaluation)
		f := g.pick([]string{"F", "G"})
		switch g.r.Intn(2) {
		case 0:
			// (one level only: text/template's own printing dereferences a
			// pointer once, a **string would print as an address)
			v.F[f] = &Val{K: "ptrstr", S: g.pick(adversarial) + "#" + tag + "p"}
		default:
			v.F[f] = &Val{K: "ptrint", I: g.r.Intn(1000)}
		}
	}
	v.F["C"] = &Val{K: "bool", B: g.chance(0.6)}
	if kind == "map" {
		v.F["U"] = &Val{K: "str", S: g.pick([]string{"/u/" + tag, "https://h.x/" + tag, "javascript:x" + tag, "u" + tag})}
		v.F["S"] = &Val{K: "stringer", S: "s" + tag}
	}
	nl := g.r.Intn(4)
	l := &Val{K: "list"}
	for i := 0; i < nl; i++ {
		l.L = append(l.L, g.leaf(fmt.Sprintf("%sL%d", tag, i)))
	}
	v.F["L"] = l
	switch {
	case depth < 2 && g.chance(0.4):
		v.F["W"] = g.data(tag+"W", depth+1)
	case g.chance(0.5):
		v.F["W"] = g.leaf(tag + "W")
	default:
		v.F["W"] = &Val{K: "nil"}
	}
	return v
}

func benignData() *Val {
	return &Val{K: "map", F: map[string]*Val{
		"F": {K: "str", S: "f"}, "G": {K: "str", S: "g"}, "C": {K: "bool", B: true},
		"L": {K: "list", L: []*Val{{K: "str", S: "l0"}}}, "W": {K: "nil"}, "U": {K: "str", S: "/u"},
	}}
}

// ---------------------------------------------------------------- helpers --

func (g *gen) allNames() []string {
	out := append([]string(nil), g.order...)
	out = append(out, g.blocks...)
	out = append(out, "root")
	return out
}

func (g *gen) execOp(set int, names []string) Op {
	id := g.id()
	tag := fmt.Sprint(id)
	name := g.pick(names)
	if g.chance(0.03) {
		name = "nosuch"
	}
	recv := ""
	if g.chance(0.5) {
		recv = g.pick(names)
	}
	d := g.data(tag, 0)
	n := g.r.Intn(100)
	switch {
	case n < 45:
		return Op{ID: id, Kind: opExecTmpl, Set: set, Recv: recv, Name: name, Data: d}
	case n < 65:
		return Op{ID: id, Kind: opExec, Set: set, Recv: name, Name: name, Data: d}
	case n < 75:
		return Op{ID: id, Kind: opExecTmplHTML, Set: set, Recv: recv, Name: name, Data: d}
	case n < 83:
		return Op{ID: id, Kind: opExecHTML, Set: set, Recv: name, Name: name, Data: d}
	case n < 95:
		return Op{ID: id, Kind: opLookupExec, Set: set, Recv: recv, Name: name, Data: d}
	default:
		return Op{ID: id, Kind: opTemplatesEx, Set: set, Recv: recv, Data: d}
	}
}

func (g *gen) readOp(set int, names []string) Op {
	id := g.id()
	recv := ""
	if g.chance(0.5) {
		recv = g.pick(names)
	}
	switch g.r.Intn(4) {
	case 0:
		return Op{ID: id, Kind: opLookup, Set: set, Recv: recv, Name: g.pick(names)}
	case 1:
		return Op{ID: id, Kind: opTemplates, Set: set, Recv: recv}
	case 2:
		return Op{ID: id, Kind: opName, Set: set, Recv: g.pick(names)}
	default:
		return Op{ID: id, Kind: opDefined, Set: set, Recv: recv}
	}
}

// execFaults plans faults for execution operations: each chosen op gets one
// fault placed inside the call.
func (g *gen) execFaults(ops []*Op, rate float64) {
	for _, op := range ops {
		if !isExecKind(op.Kind) || !g.chance(rate) {
			continue
		}
		n := g.r.Intn(100)
		var f Fault
		switch {
		case n < 25:
			f = Fault{Op: op.ID, Seam: "write", N: 1 + g.r.Intn(6), Kind: "err0"}
		case n < 45:
			f = Fault{Op: op.ID, Seam: "write", N: 1 + g.r.Intn(6), Kind: "torn", Off: g.r.Intn(8)}
		case n < 55:
			f = Fault{Op: op.ID, Seam: "write", N: 1 + g.r.Intn(6), Kind: "short", Off: g.r.Intn(8)}
		case n < 62:
			f = Fault{Op: op.ID, Seam: "write", N: 1 + g.r.Intn(6), Kind: "slow"}
		case n < 78:
			f = Fault{Op: op.ID, Seam: "func", N: 1 + g.r.Intn(3), Kind: "error"}
		case n < 90:
			f = Fault{Op: op.ID, Seam: "func", N: 1 + g.r.Intn(3), Kind: "panic"}
		case n < 96:
			f = Fault{Op: op.ID, Seam: "method", N: 1, Kind: "error"}
		default:
			f = Fault{Op: op.ID, Seam: "method", N: 1, Kind: "panic"}
		}
		g.c.Faults = append(g.c.Faults, f)
	}
}

// fsFaults plans simulated-disk faults for multi-file definition operations.
func (g *gen) fsFaults(ops []*Op, rate float64) {
	for _, op := range ops {
		if !g.chance(rate) {
			continue
		}
		switch op.Kind {
		case opParseFS:
			n := g.r.Intn(100)
			switch {
			case n < 25:
				g.c.Faults = append(g.c.Faults, Fault{Op: op.ID, Seam: "fsopen", N: 1 + g.r.Intn(5), Kind: g.pick([]string{"enoent", "eacces", "eio"})})
			case n < 50:
				g.c.Faults = append(g.c.Faults, Fault{Op: op.ID, Seam: "fsread", N: 1 + g.r.Intn(4), Kind: "eio"})
			case n < 65:
				g.c.Faults = append(g.c.Faults, Fault{Op: op.ID, Seam: "fsread", N: 1 + g.r.Intn(3), Kind: "short", Off: g.r.Intn(16)})
			case n < 85:
				g.c.Faults = append(g.c.Faults, Fault{Op: op.ID, Seam: "fsread", N: 1 + g.r.Intn(3), Kind: "trunc", Off: g.r.Intn(60)})
			default:
				g.c.Faults = append(g.c.Faults, Fault{Op: op.ID, Seam: "fsreaddir", N: 1, Kind: "eio"})
			}
		case opParseFiles:
			g.c.Faults = append(g.c.Faults, Fault{Op: op.ID, Seam: "readfile", N: 1 + g.r.Intn(3), Kind: g.pick([]string{"enoent", "eio", "trunc"}), Off: g.r.Intn(60)})
		case opParseGlob:
			if g.chance(0.5) {
				g.c.Faults = append(g.c.Faults, Fault{Op: op.ID, Seam: "glob", N: 1, Kind: "empty"})
			} else {
				g.c.Faults = append(g.c.Faults, Fault{Op: op.ID, Seam: "readfile", N: 1 + g.r.Intn(3), Kind: g.pick([]string{"enoent", "eio", "trunc"}), Off: g.r.Intn(60)})
			}
		}
	}
}

func (g *gen) schedule(tasks int) {
	c := g.c
	if tasks < 2 {
		return
	}
	c.Record = true
	c.First = g.r.Intn(tasks)
	switch g.r.Intn(5) {
	case 0: // few preemptions (PCT-like, depth 1-3 over ~3000 steps)
		c.PYield = float64(1+g.r.Intn(3)) / 3000.0
		c.PSeam = c.PYield
		c.Profile += " sched=pct"
	case 1:
		c.PYield, c.PSeam = 0.002, 0.05
		c.Profile += " sched=walk-lo"
	case 2:
		c.PYield, c.PSeam = 0.02, 0.3
		c.Profile += " sched=walk-mid"
	case 3:
		c.PYield, c.PSeam = 0.2, 0.8
		c.Profile += " sched=walk-hi"
	default: // park in the middle: switch only at seams (writes, callbacks, lock ops)
		c.PYield, c.PSeam = 0, 0.5
		c.Profile += " sched=seam-park"
	}
}
