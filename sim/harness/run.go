package main

import (
	"encoding/json"
	"fmt"

	"github.com/google/safehtml/simrt"
)

// Outcome is everything observed while executing a case.
type Outcome struct {
	DefRes  []*Result
	TaskRes [][]*Result
	Stats   simrt.Stats // concurrent phase
	DefSt   simrt.Stats // definition phase
	World   *World
	TaskPan []string
	Fired   map[string]int
}

func (o *Outcome) all() []*Result {
	var out []*Result
	out = append(out, o.DefRes...)
	for _, t := range o.TaskRes {
		out = append(out, t...)
	}
	return out
}

// flat returns all results including sub-results of Templates+Execute.
func (o *Outcome) flat() []*Result {
	var out []*Result
	for _, r := range o.all() {
		out = append(out, r)
		out = append(out, r.Subs...)
	}
	return out
}

// runSeq executes ops one after another as a single simulated task (so that
// the step budget and deadlock detection apply) and returns the results.
func runSeq(w *World, ops []Op) ([]*Result, simrt.Stats) {
	res := make([]*Result, len(ops))
	for i := range res {
		res[i] = &Result{}
	}
	simrt.Begin(simrt.Config{})
	simrt.Go(func() {
		for i := range ops {
			w.exec(&ops[i], 0, res[i])
		}
	})
	st, _ := simrt.Run()
	return res, st
}

// runCase executes a case.  In record mode the schedule drawn is written back
// into the case (c.Switches) and the case is switched to explicit mode.
func runCase(c *Case) *Outcome {
	simrt.SetMapSalt(c.MapSalt)
	w := newWorld(c)
	o := &Outcome{World: w}
	o.DefRes, o.DefSt = runSeq(w, c.Defs)
	if len(c.Tasks) > 0 && !o.DefSt.Deadlock && !o.DefSt.Hang {
		nt := len(c.Tasks)
		if nt > simrt.MaxTasks {
			nt = simrt.MaxTasks
		}
		o.TaskRes = make([][]*Result, nt)
		for t := 0; t < nt; t++ {
			o.TaskRes[t] = make([]*Result, len(c.Tasks[t]))
			for i := range o.TaskRes[t] {
				o.TaskRes[t][i] = &Result{}
			}
		}
		simrt.Begin(simrt.Config{
			Switches: c.Switches, Record: c.Record, RecordSeed: c.SchedSeed,
			PYield: c.PYield, PSeam: c.PSeam, First: c.First,
		})
		for t := 0; t < nt; t++ {
			t := t
			ops := c.Tasks[t]
			res := o.TaskRes[t]
			simrt.Go(func() {
				for i := range ops {
					w.exec(&ops[i], t, res[i])
				}
			})
		}
		st, rec := simrt.Run()
		o.Stats = st
		if c.Record {
			c.Switches = rec
			c.Record = false
		}
		for t := 0; t < nt; t++ {
			if p, stk := simrt.TaskPanic(t); p != nil {
				o.TaskPan = append(o.TaskPan, fmt.Sprintf("task %d: %v\n%s", t, p, trimStack(stk)))
			}
		}
	}
	o.Fired = map[string]int{}
	for _, r := range o.flat() {
		for _, f := range r.Fired {
			o.Fired[f]++
		}
	}
	return o
}

// ------------------------------------------------------------------ twins --

// twinner builds fresh worlds from a case's definition operations and
// memoises the results of single calls on them.
type twinner struct {
	c       *Case
	memo    map[string]*Result
	aborted int
	builds  int
}

func newTwinner(c *Case) *twinner { return &twinner{c: c, memo: map[string]*Result{}} }

// fresh replays the definition phase (with the faults planned for definition
// operations, so that the twin holds the same partial definitions) in a new
// world.  ok=false if the replay itself deadlocked or hung.
func (tw *twinner) fresh() (*World, bool) {
	tw.builds++
	simrt.SetMapSalt(tw.c.TwinSalt)
	w := newWorld(tw.c)
	w.faultOps = map[int]bool{}
	for i := range tw.c.Defs {
		w.faultOps[tw.c.Defs[i].ID] = true
	}
	_, st := runSeq(w, tw.c.Defs)
	if st.Deadlock || st.Hang {
		tw.aborted++
		return nil, false
	}
	return w, true
}

func opKey(op *Op) string {
	o := *op
	o.ID = 0
	b, _ := json.Marshal(&o)
	return string(b)
}

// call returns what op returns as the first and only call on a fresh world.
// Data values are regenerated from the op, faults are off.
func (tw *twinner) call(op *Op) *Result {
	k := opKey(op)
	if r, ok := tw.memo[k]; ok {
		return r
	}
	w, ok := tw.fresh()
	var r *Result
	if ok {
		w.noFaults = true
		rs, st := runSeq(w, []Op{*op})
		r = rs[0]
		if st.Deadlock || st.Hang {
			tw.aborted++
			r = nil
		}
	}
	simrt.SetMapSalt(tw.c.MapSalt)
	tw.memo[k] = r
	return r
}

// after returns what op returns on a fresh world on which prefix was run first
// (fault-free).
func (tw *twinner) after(prefix []Op, op *Op) *Result {
	k := "after:"
	for i := range prefix {
		k += opKey(&prefix[i]) + ";"
	}
	k += opKey(op)
	if r, ok := tw.memo[k]; ok {
		return r
	}
	w, ok := tw.fresh()
	var r *Result
	if ok {
		w.noFaults = true
		ops := append(append([]Op(nil), prefix...), *op)
		rs, st := runSeq(w, ops)
		r = rs[len(rs)-1]
		if st.Deadlock || st.Hang {
			tw.aborted++
			r = nil
		}
	}
	simrt.SetMapSalt(tw.c.MapSalt)
	tw.memo[k] = r
	return r
}
