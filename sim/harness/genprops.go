package main

import (
	"fmt"
	"strings"
)

// One generator per claimed property.  All of them share the pieces in gen.go;
// what differs is the mix of templates, operations, tasks and faults (swarm
// style: sizes and mixes are drawn per run).

func generate(prop string, seed uint64, run int) *Case {
	return generateTier(prop, seed, run, "quick")
}

// generateTier: the thorough tier draws 30% of its cases from a "big" profile
// (more templates, more tasks, longer histories).  The decision does not
// consume from the case's PRNG, so quick-tier cases are unaffected.
func generateTier(prop string, seed uint64, run int, tier string) *Case {
	g := newGen(seed, prop, run)
	g.big = tier == "thorough" && splitmix64(seed^0xb16)%10 < 3
	if g.big {
		g.c.Profile = "big "
	}
	switch prop {
	case "C05":
		g.genC05()
	case "C06":
		g.genC06()
	case "C07":
		g.genC07()
	case "C08":
		g.genC08()
	case "C09":
		g.genC09()
	default:
		panic("no generator for " + prop)
	}
	// The case that is executed is exactly what a replay file can hold.
	return g.c.clone()
}

func (g *gen) opPtrs() []*Op { return g.c.allOps() }

func (g *gen) genC05() {
	c := g.c
	g.genSet(g.n(1, 3), g.n(1, 3), 1+g.r.Intn(2), false)
	g.emitDefs(g.chance(0.3))
	g.setOptions()
	sets := []int{0}
	if g.chance(0.3) {
		c.Defs = append(c.Defs, Op{ID: g.id(), Kind: opClone, Set: 0, New: 1})
		sets = append(sets, 1)
	}
	names := g.allNames()
	// weight the failing templates and their callers
	weighted := append([]string(nil), names...)
	for i := 0; i < 3; i++ {
		weighted = append(weighted, g.bads...)
	}
	ntasks := 1
	if g.chance(0.25) {
		ntasks = 2 + g.r.Intn(2)
	}
	nops := g.n(3, 7)
	c.Tasks = make([][]Op, ntasks)
	for i := 0; i < nops; i++ {
		t := g.r.Intn(ntasks)
		set := sets[g.r.Intn(len(sets))]
		var op Op
		switch n := g.r.Intn(100); {
		case n < 80:
			op = g.execOp(set, weighted)
		case n < 88:
			op = Op{ID: g.id(), Kind: opNew, Set: set, Name: fmt.Sprintf("N%d", i)}
		case n < 94:
			op = g.readOp(set, names)
		default:
			op = Op{ID: g.id(), Kind: opClone, Set: set, New: 5 + i}
		}
		c.Tasks[t] = append(c.Tasks[t], op)
	}
	c.Profile += fmt.Sprintf("C05 tasks=%d", ntasks)
	g.holdHandles()
	if g.chance(0.4) {
		g.execFaults(g.opPtrs(), 0.35)
		c.Profile += " faults"
	}
	g.schedule(ntasks)
}

func (g *gen) genC06() {
	c := g.c
	nbad := 0
	if g.chance(0.3) {
		nbad = 1
	}
	g.genSet(g.n(2, 3), g.n(2, 3), nbad, false)
	g.emitDefs(g.chance(0.25))
	g.setOptions()
	names := g.allNames()
	nops := g.n(3, 7)
	var ops []Op
	for i := 0; i < nops; i++ {
		if len(ops) > 0 && g.chance(0.25) {
			// repetition of an earlier call (same name, same data)
			prev := ops[g.r.Intn(len(ops))]
			prev.ID = g.id()
			ops = append(ops, prev)
			continue
		}
		ops = append(ops, g.execOp(0, names))
	}
	c.Tasks = [][]Op{ops}
	g.holdHandles()
	c.Profile += "C06"
	if g.chance(0.4) {
		var ptrs []*Op
		for i := range c.Tasks[0] {
			ptrs = append(ptrs, &c.Tasks[0][i])
		}
		g.execFaults(ptrs, 0.35)
		// after an aborted call, the same call again without a fault
		faulted := map[int]bool{}
		for _, f := range c.Faults {
			faulted[f.Op] = true
		}
		var out []Op
		for _, op := range c.Tasks[0] {
			out = append(out, op)
			if faulted[op.ID] && g.chance(0.7) {
				again := op
				again.ID = g.id()
				out = append(out, again)
			}
		}
		c.Tasks[0] = out
		c.Profile += " faults"
	}
}

func (g *gen) genC08() {
	c := g.c
	g.genSet(g.n(1, 3), g.n(1, 3), g.r.Intn(3), true)
	useDisk := g.chance(0.4)
	g.emitDefs(useDisk)
	if useDisk && c.Disk == nil {
		c.Disk = map[string]string{}
	}
	names := g.allNames()
	sets := []int{0}
	ntasks := 1
	if g.chance(0.3) {
		ntasks = 2 + g.r.Intn(2)
	}
	c.Tasks = make([][]Op, ntasks)
	nops := g.n(3, 8)
	for i := 0; i < nops; i++ {
		t := g.r.Intn(ntasks)
		set := sets[g.r.Intn(len(sets))]
		var op Op
		switch n := g.r.Intn(100); {
		case n < 55:
			op = g.execOp(set, names)
		case n < 65:
			op = g.readOp(set, names)
		case n < 72 && ntasks == 1:
			ns := len(sets)
			op = Op{ID: g.id(), Kind: opClone, Set: set, Recv: g.maybeName(names), New: ns}
			sets = append(sets, ns)
		case n < 80 && ntasks == 1:
			op = Op{ID: g.id(), Kind: opNew, Set: set, Recv: g.maybeName(names), Name: g.pick(append(names, "N1", "N2"))}
		case n < 92 && ntasks == 1:
			op = g.parseOp(set, names, useDisk)
		case n < 95 && ntasks == 1:
			op = Op{ID: g.id(), Kind: opOption, Set: set, Text: g.pick([]string{"missingkey=error", "missingkey=zero", "missingkey=default"})}
		case n < 97 && ntasks == 1:
			op = Op{ID: g.id(), Kind: opCSP, Set: set}
		case n < 98 && ntasks == 1:
			op = Op{ID: g.id(), Kind: opFuncs, Set: set, Name: "fx0"}
		default:
			op = g.execOp(set, names)
		}
		c.Tasks[t] = append(c.Tasks[t], op)
	}
	if g.chance(0.06) {
		// custom delimiters: set on the root before anything is parsed; every
		// text of this case is written with them
		d := g.pick([]string{"[[ ]]", "<% %>", "{% %}", "(( ))"})
		lr := strings.SplitN(d, " ", 2)
		conv := func(t string) string {
			return strings.ReplaceAll(strings.ReplaceAll(t, "{{", lr[0]), "}}", lr[1])
		}
		defs := []Op{c.Defs[0], {ID: g.id(), Kind: opDelims, Set: 0, Text: d}}
		for _, op := range c.Defs[1:] {
			op.Text = conv(op.Text)
			defs = append(defs, op)
		}
		c.Defs = defs
		for t := range c.Tasks {
			for i := range c.Tasks[t] {
				if c.Tasks[t][i].Kind == opParse {
					c.Tasks[t][i].Text = conv(c.Tasks[t][i].Text)
				}
			}
		}
		for f, txt := range c.Disk {
			c.Disk[f] = conv(txt)
		}
		c.Profile += "delims "
	}
	c.Profile += fmt.Sprintf("C08 tasks=%d", ntasks)
	g.holdHandles()
	if g.chance(0.5) {
		g.execFaults(g.opPtrs(), 0.3)
		g.fsFaults(g.opPtrs(), 0.4)
		c.Profile += " faults"
	}
	g.schedule(ntasks)
}

// holdHandles: in single-task histories, now and then a handle obtained by an
// early Lookup is kept and used for later calls instead of looking the
// template up again (callers do keep handles).
func (g *gen) holdHandles() {
	c := g.c
	if len(c.Tasks) != 1 || !g.chance(0.3) {
		return
	}
	ops := c.Tasks[0]
	var out []Op
	slot := 0
	held := map[string]int{} // "set/name" -> slot
	for i := range ops {
		op := ops[i]
		name := ""
		switch op.Kind {
		case opExec, opExecHTML:
			name = op.Recv
		case opExecTmpl, opExecTmplHTML, opParse, opClone:
			name = op.Recv
		}
		if name != "" {
			key := fmt.Sprintf("%d/%s", op.Set, name)
			if k, ok := held[key]; ok {
				if g.chance(0.6) {
					op.Held = k
				}
			} else if slot < 6 && g.chance(0.4) {
				slot++
				held[key] = slot
				out = append(out, Op{ID: g.id(), Kind: opLookup, Set: op.Set, Name: name, Hold: slot})
			}
		}
		out = append(out, op)
	}
	c.Tasks[0] = out
	c.Profile += " handles"
}

// setOptions: now and then the set has non-default settings (they are part of
// its definitions: twins replay them).
func (g *gen) setOptions() {
	c := g.c
	var extra []Op
	if g.chance(0.10) {
		extra = append(extra, Op{ID: g.id(), Kind: opOption, Set: 0, Text: g.pick([]string{"missingkey=error", "missingkey=zero"})})
	}
	if g.chance(0.04) {
		extra = append(extra, Op{ID: g.id(), Kind: opCSP, Set: 0})
	}
	if len(extra) > 0 && len(c.Defs) > 0 {
		c.Defs = append(append([]Op{c.Defs[0]}, extra...), c.Defs[1:]...)
	}
}

func (g *gen) maybeName(names []string) string {
	if g.chance(0.5) {
		return ""
	}
	return g.pick(names)
}

// parseOp: a definition call made in the middle of a history.
func (g *gen) parseOp(set int, names []string, useDisk bool) Op {
	id := g.id()
	recv := g.maybeName(names)
	n := g.r.Intn(100)
	switch {
	case n < 35:
		name := g.pick(names)
		body := g.topBody()
		if g.chance(0.2) {
			body = g.pick(failSeeds)
		}
		if g.chance(0.1) {
			body = mutate(g.r, body)
		}
		txt := defineText(name, body)
		if g.chance(0.15) {
			txt = g.pick([]string{"{{", "{{define \"x\"}}", "{{end}}", "{{.F", "{{template}}", "{{if}}x{{end}}", "{{nosuchfunc .}}"})
		}
		return Op{ID: id, Kind: opParse, Set: set, Recv: recv, Text: txt}
	case n < 55:
		return Op{ID: id, Kind: opParseConst, Set: set, Recv: recv, Const: g.r.Intn(len(constTexts))}
	case n < 70 && useDisk:
		nf := 1 + g.r.Intn(2)
		var fs []string
		for i := 0; i < nf; i++ {
			fs = append(fs, g.pick(constFiles))
		}
		return Op{ID: id, Kind: opParseFiles, Set: set, Recv: recv, Files: fs, Via: g.pick([]string{"const", "trusted"})}
	case n < 80 && useDisk:
		return Op{ID: id, Kind: opParseGlob, Set: set, Recv: recv, Text: g.pick(constGlobs), Via: g.pick([]string{"const", "trusted"})}
	case n < 92 && useDisk:
		return Op{ID: id, Kind: opParseFS, Set: set, Recv: recv, Via: g.pick([]string{"", "", "dirfs", "sub"}), Files: []string{g.pick([]string{"*.tmpl", "sub/*.tmpl", "a.tmpl", "nomatch*", "[", "c.tmpl", "d.tmpl"})}}
	default:
		return Op{ID: id, Kind: opParseConst, Set: set, Recv: recv, Const: g.r.Intn(len(constTexts))}
	}
}

func (g *gen) genC09() {
	c := g.c
	nbad := 0
	if g.chance(0.33) {
		nbad = 1
	}
	g.genSet(g.n(2, 3), g.n(3, 3), nbad, false)
	g.emitDefs(false)
	g.setOptions()
	names := g.allNames()
	ntasks := 2 + g.r.Intn(3)
	if g.big {
		ntasks += 1 + g.r.Intn(2)
	}
	c.Tasks = make([][]Op, ntasks)
	for t := 0; t < ntasks; t++ {
		n := g.n(1, 4)
		for i := 0; i < n; i++ {
			var op Op
			id := g.id()
			tag := fmt.Sprint(id)
			name := g.pick(names)
			recv := g.maybeName(names)
			switch k := g.r.Intn(100); {
			case k < 35:
				op = Op{ID: id, Kind: opExecTmpl, Set: 0, Recv: recv, Name: name, Data: g.data(tag, 0)}
			case k < 55:
				op = Op{ID: id, Kind: opExec, Set: 0, Recv: name, Name: name, Data: g.data(tag, 0)}
			case k < 65:
				op = Op{ID: id, Kind: opExecHTML, Set: 0, Recv: name, Name: name, Data: g.data(tag, 0)}
			case k < 73:
				op = Op{ID: id, Kind: opLookup, Set: 0, Recv: recv, Name: name}
			case k < 81:
				op = Op{ID: id, Kind: opTemplates, Set: 0, Recv: recv}
			case k < 88:
				op = Op{ID: id, Kind: opName, Set: 0, Recv: name}
			default:
				op = Op{ID: id, Kind: opDefined, Set: 0, Recv: recv}
			}
			c.Tasks[t] = append(c.Tasks[t], op)
		}
	}
	c.Profile += fmt.Sprintf("C09 tasks=%d", ntasks)
	if g.chance(0.35) {
		g.execFaults(g.opPtrs(), 0.3)
		c.Profile += " faults"
	}
	g.schedule(ntasks)
}

func (g *gen) genC07() {
	// filled in by c07.go
	g.genC07impl()
}
