package main

func (g *gen) genC07impl() { g.genC06() }

func checkC07(cr *checkResult) {}
