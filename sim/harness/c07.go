package main

import (
	"bytes"
	"fmt"
	"regexp"
	"strings"

	"github.com/google/safehtml/simrt"
)

// C07: definitions freeze at first execution; clones are fully isolated.
// DESIGN §5 C07.  The history is Defs followed by the single task's
// operations; worlds that leave out part of the history are executed with the
// same map-order salt and the same fault plan (faults are keyed by op id), so
// nothing but the removed operations differs.

var probeRe = regexp.MustCompile(`\{\{probe "[^"]*"\}\}`)
var valRe = regexp.MustCompile(`\{\{val (\.[A-Z]?)\}\}`)

func funcFree(s string) string {
	return valRe.ReplaceAllString(probeRe.ReplaceAllString(s, ""), "{{$1}}")
}

func (g *gen) genC07impl() {
	c := g.c
	g.genSet(g.n(1, 3), g.n(2, 3), g.r.Intn(2), false)
	// Simulated disk: every file defines some of the templates again or new
	// ones, without sim functions so that the function forms can load them.
	c.Disk = map[string]string{}
	files := []string{"a.tmpl", "b.tmpl", "c.tmpl", "sub/d.tmpl"}
	for i, f := range files {
		var b strings.Builder
		n := 1 + g.r.Intn(2)
		for j := 0; j < n; j++ {
			name := g.pick(append(append([]string(nil), g.order...), fmt.Sprintf("F%d", i)))
			body := g.bodies[name]
			if body == "" || g.chance(0.5) {
				body = g.c07body()
			}
			b.WriteString(defineText(name, funcFree(body)))
		}
		if g.chance(0.4) {
			b.WriteString("<p>file " + f + " {{.F}}</p>")
		}
		c.Disk[f] = b.String()
	}
	g.emitDefs(false)
	names := g.allNames()
	sets := []int{0}
	frozen := map[int]bool{}
	nops := g.n(6, 10)
	var ops []Op
	for i := 0; i < nops; i++ {
		set := sets[g.r.Intn(len(sets))]
		n := g.r.Intn(100)
		late := i > nops/3
		switch {
		case n < 14 && len(sets) < 3:
			ns := len(sets)
			ops = append(ops, Op{ID: g.id(), Kind: opClone, Set: set, Recv: g.maybeName(names), New: ns})
			sets = append(sets, ns)
			frozen[ns] = false
		case n < 22 && late:
			// clone attempt whatever the state (must fail after execution)
			ops = append(ops, Op{ID: g.id(), Kind: opClone, Set: set, Recv: g.maybeName(names), New: 7 + i})
		case n < 50:
			op := g.c07parse(set, names)
			ops = append(ops, op)
		case n < 56 && !frozen[set]:
			ops = append(ops, Op{ID: g.id(), Kind: opNew, Set: set, Recv: g.maybeName(names), Name: fmt.Sprintf("N%d", i)})
		case n < 58:
			ops = append(ops, g.readOp(set, names))
		case n < 60:
			// a setting changed on one set only (isolation is still checked;
			// the flat-set comparison does not apply to such histories)
			if g.chance(0.7) {
				ops = append(ops, Op{ID: g.id(), Kind: opOption, Set: set, Recv: g.maybeName(names), Text: g.pick([]string{"missingkey=error", "missingkey=zero", "missingkey=default"})})
			} else {
				ops = append(ops, Op{ID: g.id(), Kind: opCSP, Set: set, Recv: g.maybeName(names)})
			}
		case n < 64:
			// a function registered on one set only, and a text that uses it
			fn := fmt.Sprintf("fx%d", g.r.Intn(2))
			ops = append(ops, Op{ID: g.id(), Kind: opFuncs, Set: set, Recv: g.maybeName(names), Name: fn})
			other := sets[g.r.Intn(len(sets))]
			ops = append(ops, Op{ID: g.id(), Kind: opParse, Set: other, Recv: g.maybeName(names), Text: defineText(fmt.Sprintf("U%d", i), "<p>{{"+fn+"}}</p>")})
			names = append(names, fmt.Sprintf("U%d", i))
		default:
			if !late && g.chance(0.5) {
				ops = append(ops, g.c07parse(set, names))
				continue
			}
			ops = append(ops, g.execOp(set, names))
			frozen[set] = true
		}
	}
	c.Tasks = [][]Op{ops}
	g.holdHandles()
	c.Profile += fmt.Sprintf("C07 sets=%d", len(sets))
	if g.chance(0.4) {
		g.fsFaults(g.opPtrs(), 0.35)
		g.execFaults(g.opPtrs(), 0.2)
		c.Profile += " faults"
	}
}

func (g *gen) c07body() string {
	switch g.r.Intn(4) {
	case 0:
		return g.pick(helperValueBodies)
	case 1:
		return strings.Replace(g.pick(helperHTMLBodies), "·", "", 1)
	case 2:
		return g.pick([]string{`<a href="`, `<div title="`, `<b>`})
	default:
		return g.topBody()
	}
}

// c07parse: a definition call through one of the Parse entry points.
func (g *gen) c07parse(set int, names []string) Op {
	id := g.id()
	recv := g.maybeName(names)
	switch n := g.r.Intn(100); {
	case n < 40:
		// redefine an existing helper / template or define a new one
		name := g.pick(append(append([]string(nil), names...), "N9"))
		return Op{ID: id, Kind: opParse, Set: set, Recv: recv, Text: defineText(name, g.c07body())}
	case n < 52:
		return Op{ID: id, Kind: opParseConst, Set: set, Recv: recv, Const: g.r.Intn(len(constTexts))}
	case n < 68:
		nf := 1 + g.r.Intn(2)
		var fs []string
		for i := 0; i < nf; i++ {
			fs = append(fs, g.pick(constFiles))
		}
		return Op{ID: id, Kind: opParseFiles, Set: set, Recv: recv, Files: fs, Via: g.pick([]string{"const", "trusted"})}
	case n < 80:
		return Op{ID: id, Kind: opParseGlob, Set: set, Recv: recv, Text: g.pick(constGlobs[:3]), Via: g.pick([]string{"const", "trusted"})}
	default:
		return Op{ID: id, Kind: opParseFS, Set: set, Recv: recv, Via: g.pick([]string{"", "", "dirfs", "sub"}), Files: []string{g.pick([]string{"*.tmpl", "sub/*.tmpl", "a.tmpl", "c.tmpl", "d.tmpl"})}}
	}
}

// ------------------------------------------------------------------ oracle --

// runWorld executes ops on a fresh world of the case (same salt, same fault
// plan) and returns the results by op id; ok=false if it deadlocked or hung.
func runWorld(c *Case, ops []Op) (map[int]*Result, bool) {
	simrt.SetMapSalt(c.MapSalt)
	w := newWorld(c)
	rs, st := runSeq(w, ops)
	if st.Deadlock || st.Hang {
		return nil, false
	}
	m := map[int]*Result{}
	for _, r := range rs {
		m[r.OpID] = r
	}
	return m, true
}

// executedForSure: the call certainly analysed (and possibly ran) an existing
// template with a body: it returned nil, a run-time error, a writer error or
// an analysis error.  Errors of class "other" (undefined name, incomplete
// template) are not counted: the statement does not settle them.
func executedForSure(r *Result) bool {
	if !r.Done || r.Skipped != "" || r.Panic != "" || r.Aborted != "" {
		return false
	}
	switch r.Kind {
	case opExec, opExecTmpl, opExecHTML, opExecTmplHTML:
	case opLookupExec:
		if !r.Found {
			return false
		}
	case opTemplatesEx:
		for _, s := range r.Subs {
			if s.Err == "" || s.ErrClass != "other" {
				return true
			}
		}
		return false
	default:
		return false
	}
	return r.Err == "" || r.ErrClass != "other"
}

func strictEqual(a, b *Result) (bool, string) {
	if a.Skipped != b.Skipped {
		return false, fmt.Sprintf("skipped %q vs %q", a.Skipped, b.Skipped)
	}
	if (a.Err == "") != (b.Err == "") {
		return false, fmt.Sprintf("err=%q vs err=%q", clip(a.Err), clip(b.Err))
	}
	if !bytes.Equal(a.Out, b.Out) {
		return false, fmt.Sprintf("wrote %q vs %q", clip(string(a.Out)), clip(string(b.Out)))
	}
	if a.Found != b.Found {
		return false, fmt.Sprintf("found=%v vs %v", a.Found, b.Found)
	}
	if a.Kind == opTemplates || a.Kind == opLookup {
		if strings.Join(a.Names, ",") != strings.Join(b.Names, ",") || a.Target != b.Target {
			return false, fmt.Sprintf("%v %q vs %v %q", a.Names, a.Target, b.Names, b.Target)
		}
	}
	if len(a.Subs) != len(b.Subs) {
		return false, fmt.Sprintf("%d vs %d templates", len(a.Subs), len(b.Subs))
	}
	for i := range a.Subs {
		if ok, d := strictEqual(a.Subs[i], b.Subs[i]); !ok {
			return false, fmt.Sprintf("template %q: %s", a.Subs[i].Target, d)
		}
	}
	return true, ""
}

func checkC07(cr *checkResult) {
	o := cr.out
	c := cr.tw.c
	if o.DefSt.Deadlock || o.DefSt.Hang || o.Stats.Deadlock || o.Stats.Hang || len(c.Tasks) != 1 {
		return
	}
	hist := append(append([]Op(nil), c.Defs...), c.Tasks[0]...)
	res := map[int]*Result{}
	for _, r := range o.all() {
		res[r.OpID] = r
	}
	// --- reference model: freeze flags and clone lineage along the history ---
	type lineage struct {
		parent int
		cutIdx int // index in hist of the Clone op that created the set
	}
	lin := map[int]lineage{}
	handle := map[int]string{}
	complete := map[int]bool{}
	frozen := map[int]bool{}
	executed := map[int]bool{}
	postFreezeParse := map[int]bool{} // op ids of Parse* calls made on a frozen set
	for i := range hist {
		op := &hist[i]
		r := res[op.ID]
		if r == nil || !r.Done || r.Aborted != "" {
			return // aborted run: C08's business
		}
		if r.Panic != "" {
			return
		}
		if r.Created > 0 {
			id := r.Created - 1
			handle[id] = r.Handle
			complete[id] = r.How != "clone" || r.Complete
			if r.How == "clone" {
				lin[id] = lineage{parent: op.Set, cutIdx: i}
				cr.note("clone_created")
			} else {
				lin[id] = lineage{parent: -1, cutIdx: -1}
				cr.note("set_created_by_" + r.How)
			}
			if r.How != "clone" {
				continue
			}
		}
		switch {
		case isParseKind(op.Kind):
			if r.Skipped != "" {
				continue
			}
			if frozen[op.Set] {
				postFreezeParse[op.ID] = true
				cr.note("parse_after_freeze_" + op.Kind)
				if r.Err == "" {
					cr.add("C07", "parse-after-freeze-ok", op.ID, "parse-after-freeze-ok:"+op.Kind, "%s on set %d returned nil although a template of that set had already been executed", op.Kind, op.Set)
				}
			}
		case op.Kind == opClone:
			if r.Skipped != "" {
				continue
			}
			if executed[op.Set] {
				cr.note("clone_after_execution")
				if r.Err == "" {
					cr.add("C07", "clone-after-exec-ok", op.ID, "clone-after-exec-ok", "Clone on set %d returned nil although a template of that set had already been executed", op.Set)
				}
			}
		case isExecKind(op.Kind):
			// "executed (successfully or not)": any Execute* call on a member
			// of the set freezes it, also one that fails because the member
			// has no body yet.  Clone is only required to fail once a member
			// was certainly analysed (executedForSure).
			if r.Skipped == "" && (r.Exists || executedForSure(r)) {
				frozen[op.Set] = true
				if !executedForSure(r) {
					cr.note("freeze_by_failed_execution_without_analysis")
				}
			}
			if executedForSure(r) {
				executed[op.Set] = true
			}
		}
	}

	// --- F2: lock-step twin that never attempts the refused parses ---
	if len(postFreezeParse) > 0 {
		var ops []Op
		for _, op := range hist {
			if !postFreezeParse[op.ID] {
				ops = append(ops, op)
			}
		}
		if tw, ok := runWorld(c, ops); ok {
			for _, op := range ops {
				if a, b := res[op.ID], tw[op.ID]; a != nil && b != nil && (isExecKind(op.Kind) || op.Kind == opLookup || op.Kind == opTemplates) {
					if same, d := strictEqual(a, b); !same {
						cr.add("C07", "output-changed-after-freeze", op.ID, "output-changed-after-freeze", "%s %q on set %d differs from the same history without the Parse* calls made after the first execution: %s", op.Kind, a.Target, op.Set, d)
						break
					}
				}
			}
		}
	}

	// --- I1a: strict isolation; I1b: a clone behaves like a flat set ---
	if len(lin) > 1 {
		for set := range lin {
			// relevant(set): ops on set, and ops on each ancestor before the cut
			keep := make([]bool, len(hist))
			cur, limit := set, len(hist)
			for cur >= 0 {
				l, known := lin[cur]
				if !known {
					break
				}
				for i := 0; i < limit; i++ {
					if hist[i].Set == cur {
						keep[i] = true
					}
				}
				if l.cutIdx >= 0 {
					keep[l.cutIdx] = true
				}
				cur, limit = l.parent, l.cutIdx
			}
			var ops []Op
			removed := 0
			for i := range hist {
				if keep[i] {
					ops = append(ops, hist[i])
				} else {
					removed++
				}
			}
			if removed > 0 {
				cr.note("isolation_world_compared")
				if tw, ok := runWorld(c, ops); ok {
					for _, op := range ops {
						if op.Set != set {
							continue
						}
						a, b := res[op.ID], tw[op.ID]
						if a == nil || b == nil {
							continue
						}
						if same, d := strictEqual(a, b); !same {
							cr.add("C07", "clone-leak", op.ID, "clone-leak", "%s %q on set %d changes when the operations on the other sets (%d of them) are removed from the history: %s", op.Kind, a.Target, set, removed, d)
							break
						}
					}
				}
			}
			// I1b only for clones
			if lin[set].parent < 0 {
				continue
			}
			flat, usable := flatten07(hist, keep, set, func(s int) (int, int) { return lin[s].parent, lin[s].cutIdx })
			for cur := set; cur >= 0 && usable; cur = lin[cur].parent {
				// "the set's root handle" must name the same template along
				// the whole lineage (Clone does not carry over a root that was
				// never parsed)
				if handle[cur] != handle[set] || !complete[cur] {
					// also: a member declared with New and never parsed is
					// not carried over, so calls that name it as receiver or
					// callee address different things in the two worlds
					usable = false
				}
			}
			if !usable {
				continue
			}
			cr.note("clone_vs_flat_compared")
			if tw, ok := runWorld(c, flat); ok {
				for _, op := range flat {
					if !isExecKind(op.Kind) || op.Kind == opTemplatesEx {
						continue
					}
					a, b := res[op.ID], tw[op.ID]
					if a == nil || b == nil || a.Skipped != "" || b.Skipped != "" || a.Found != b.Found {
						// (a template declared with New and never parsed is not
						// carried over by Clone; Lookup may legitimately differ)
						continue
					}
					if (a.Err == "") != (b.Err == "") || !bytes.Equal(a.Out, b.Out) {
						cr.add("C07", "clone-not-own-context", op.ID, "clone-not-own-context", "%s %q on clone set %d gives (%q, err=%q) but a plain set built from the definitions the clone inherited plus its own, with the same executions, gives (%q, err=%q)", op.Kind, a.Target, set, clip(string(a.Out)), clip(a.Err), clip(string(b.Out)), clip(b.Err))
						break
					}
				}
			}
		}
	}
	simrt.SetMapSalt(c.MapSalt)
}

// flatten07 rewrites relevant(set) into a history over ONE plain set: the
// definition calls the clone inherited (ancestors' definitions before each
// cut), then everything done on the clone itself; Clone calls are dropped.
// Not usable when the lineage uses things Clone is not required to carry over
// (Option, CSPCompatible, templates declared with New and never parsed) or
// when an ancestor was created by a function-form Parse* call.
func flatten07(hist []Op, keep []bool, set int, parent func(int) (int, int)) ([]Op, bool) {
	anc := map[int]bool{}
	for cur := set; cur >= 0; {
		anc[cur] = true
		p, _ := parent(cur)
		cur = p
	}
	var out []Op
	first := true
	for i := range hist {
		if !keep[i] {
			continue
		}
		op := hist[i]
		switch op.Kind {
		case opClone:
			if op.Set == set {
				// a further Clone attempt on the clone itself: keep it as is but
				// its target set must not collide
				op.Set = 100
				op.New = 100 + op.New
				out = append(out, op)
			}
			continue
		case opOption, opCSP:
			return nil, false
		}
		if op.Set != set {
			// ancestor operation before the cut: only definitions are inherited
			if isExecKind(op.Kind) {
				// an execution on an ancestor before the cut makes Clone fail;
				// then the clone does not exist and we are not here
				return nil, false
			}
			if op.Kind == opLookup || op.Kind == opTemplates || op.Kind == opName || op.Kind == opDefined {
				continue
			}
		}
		if first {
			if op.Kind != opNew {
				return nil, false
			}
			first = false
		} else if op.Kind == opNew && op.Set != set {
			// New on an ancestor without a later Parse is not carried over by
			// Clone; with a later Parse it is.  Keep it: a declared-but-empty
			// template and a missing one both make callers fail.
		}
		op.Set = 100
		out = append(out, op)
	}
	return out, !first
}
