package main

import (
	"fmt"
	"os"
	"sort"
	"strings"

	"github.com/google/safehtml/simrt"
)

// raceLog reads the race detector's report file (GORACE=log_path=...) so that
// reports can be attributed to the simulated run during which they appeared.
type raceLog struct {
	path string
	off  int64
}

func newRaceLog() *raceLog {
	if !simrt.RaceBuild {
		return &raceLog{}
	}
	for _, f := range strings.Fields(os.Getenv("GORACE")) {
		if strings.HasPrefix(f, "log_path=") {
			return &raceLog{path: fmt.Sprintf("%s.%d", strings.TrimPrefix(f, "log_path="), os.Getpid())}
		}
	}
	return &raceLog{}
}

func (r *raceLog) newReports() string {
	if r.path == "" {
		return ""
	}
	st, err := os.Stat(r.path)
	if err != nil || st.Size() <= r.off {
		return ""
	}
	f, err := os.Open(r.path)
	if err != nil {
		return ""
	}
	defer f.Close()
	buf := make([]byte, st.Size()-r.off)
	n, _ := f.ReadAt(buf, r.off)
	r.off += int64(n)
	return string(buf[:n])
}

// raceSig names a report by the innermost non-runtime functions of the two
// conflicting accesses of its first report.
func raceSig(rep string) string {
	lines := strings.Split(rep, "\n")
	var fns []string
	for i := 0; i < len(lines) && len(fns) < 2; i++ {
		l := lines[i]
		if strings.HasPrefix(l, "Write at") || strings.HasPrefix(l, "Read at") ||
			strings.HasPrefix(l, "Previous write at") || strings.HasPrefix(l, "Previous read at") {
			kind := strings.Fields(strings.TrimPrefix(l, "Previous "))[0]
			for j := i + 1; j < len(lines); j++ {
				fl := strings.TrimSpace(lines[j])
				if fl == "" {
					break
				}
				if strings.HasPrefix(fl, "/") || strings.HasPrefix(fl, "runtime.") || strings.HasPrefix(fl, "reflect.") || strings.HasPrefix(fl, "internal/") {
					continue
				}
				if k := strings.Index(fl, "("); k > 0 {
					fl = fl[:k]
				}
				if k := strings.LastIndex(fl, "/"); k >= 0 {
					fl = fl[k+1:]
				}
				fns = append(fns, strings.ToLower(kind)+":"+fl)
				break
			}
		}
	}
	sort.Strings(fns)
	return strings.Join(fns, "|")
}

// libraryRace reports whether a race report involves the code under test at
// all.  A report whose stacks contain only harness / simulator frames is a bug
// of the machinery (exit 2), never a violation of the library.
func libraryRace(rep string) bool {
	return strings.Contains(rep, "safehtml/template.") || strings.Contains(rep, "text/template.") ||
		strings.Contains(rep, "text/template/parse.") || strings.Contains(rep, "google/safehtml.")
}
