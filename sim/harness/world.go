package main

import (
	"encoding/hex"
	"errors"
	"fmt"
	"io"
	"io/fs"
	"path"
	"path/filepath"
	"runtime"
	"sort"
	"strings"
	"syscall"
	texttemplate "text/template"
	"time"

	"github.com/google/safehtml"
	"github.com/google/safehtml/simrt"
	"github.com/google/safehtml/template"
	tconv "github.com/google/safehtml/template/uncheckedconversions"
	sconv "github.com/google/safehtml/uncheckedconversions"
)

// Seam kinds (indices into slot.cnt).
const (
	seamWrite = iota
	seamFunc
	seamMethod
	seamFSOpen
	seamFSRead
	seamFSReadDir
	seamReadFile
	seamGlob
	nSeams
)

var seamNames = [nSeams]string{"write", "func", "method", "fsopen", "fsread", "fsreaddir", "readfile", "glob"}

// Site ids of harness-owned seams (negative ids below -100 are the harness's).
const (
	siteWrite    = -101
	siteFunc     = -102
	siteMethod   = -103
	siteFS       = -104
	siteOpBegin  = -110
	siteOpReturn = -111
)

// Result is what one API call did, as observed from outside.
type Result struct {
	OpID     int        `json:"op"`
	Task     int        `json:"task"`
	Kind     string     `json:"kind"`
	Target   string     `json:"target,omitempty"` // name of the template executed / looked up
	Inv      uint64     `json:"inv"`
	Ret      uint64     `json:"ret"`
	Skipped  string     `json:"skipped,omitempty"`
	Out      []byte     `json:"-"`
	OutS     string     `json:"out,omitempty"`
	NWrites  int        `json:"nwrites,omitempty"`
	WLens    []int      `json:"-"`
	FailedAt int        `json:"write_failed_at,omitempty"` // index (1-based) of the Write that was failed by a fault
	AfterErr int        `json:"writes_after_error,omitempty"`
	Err      string     `json:"err,omitempty"`
	ErrClass string     `json:"errclass,omitempty"` // analysis exec writer other
	ErrCode  int        `json:"errcode,omitempty"`
	Panic    string     `json:"panic,omitempty"`
	Stack    string     `json:"stack,omitempty"`
	Aborted  string     `json:"aborted,omitempty"`
	Probes   []string   `json:"probes,omitempty"`
	HTML     string     `json:"html,omitempty"`
	Names    []string   `json:"names,omitempty"`
	Found    bool       `json:"found,omitempty"`
	Fired    []string   `json:"fired,omitempty"`
	Done     bool       `json:"done"`
	Created  int        `json:"created,omitempty"`  // 1 + id of the set this call created (0: none)
	How      string     `json:"how,omitempty"`      // new | function-form | clone
	Handle   string     `json:"handle,omitempty"`   // name of the new set's root handle
	Exists   bool       `json:"exists,omitempty"`   // execution calls: the target is a member of the set
	Complete bool       `json:"complete,omitempty"` // Clone: every member of the parent is a member of the clone
	Reads    []*readRec `json:"-"`                  // Parse*: what the simulated disk delivered, per file
	Subs     []*Result  `json:"subs,omitempty"`
}

type slot struct {
	w   *World
	op  *Op
	res *Result
	cnt [nSeams]int
}

var slots [simrt.MaxTasks + 1]slot

func curSlot() *slot {
	c := simrt.Cur()
	if c < 0 {
		c = simrt.MaxTasks
	}
	return &slots[c]
}

// setTable maps set ids to root handles.  A fixed array rather than a map:
// in multi-task phases one task may create a set (Clone) while others use
// different sets, and a Go map would make that a data race of the harness.
type setTable [256]*template.Template

// World is one universe of template sets built by a sequence of operations.
type World struct {
	c        *Case
	sets     setTable
	handles  [16]*template.Template // handles kept by Lookup ops with Hold > 0
	disk     map[string]string
	faultOps map[int]bool // nil: all faults of the case apply; else only for these op ids
	noFaults bool
	fired    map[string]int
}

func newWorld(c *Case) *World {
	return &World{c: c, disk: c.Disk, fired: map[string]int{}}
}

// fault returns the planned fault for the n-th event on seam during the
// current operation, or nil.
func (sl *slot) fault(seam int) *Fault {
	sl.cnt[seam]++
	w := sl.w
	if w == nil || w.noFaults || sl.op == nil {
		return nil
	}
	n := sl.cnt[seam]
	for i := range w.c.Faults {
		f := &w.c.Faults[i]
		if f.Op == sl.op.ID && f.N == n && f.Seam == seamNames[seam] {
			if w.faultOps != nil && !w.faultOps[f.Op] {
				return nil
			}
			if sl.res != nil {
				sl.res.Fired = append(sl.res.Fired, f.Seam+":"+f.Kind)
			}
			return f
		}
	}
	return nil
}

// ---------------------------------------------------------------- writer --

type simWriteError struct{ kind string }

func (e *simWriteError) Error() string { return "simulated writer fault: " + e.kind }

// SimWriter is the io.Writer handed to Execute*: every Write is an event, a
// scheduling point and a fault point.
type SimWriter struct {
	res *Result
}

func (w *SimWriter) Write(p []byte) (int, error) {
	sl := curSlot()
	simrt.SeamYield(siteWrite)
	r := w.res
	r.NWrites++
	if r.FailedAt != 0 {
		r.AfterErr++
	}
	f := sl.fault(seamWrite)
	if f != nil {
		switch f.Kind {
		case "err0":
			r.FailedAt = r.NWrites
			r.WLens = append(r.WLens, 0)
			return 0, &simWriteError{"err0"}
		case "torn":
			j := f.Off
			if j >= len(p) {
				j = len(p) - 1
			}
			if j < 0 {
				j = 0
			}
			r.Out = append(r.Out, p[:j]...)
			r.WLens = append(r.WLens, j)
			r.FailedAt = r.NWrites
			return j, &simWriteError{"torn"}
		case "short":
			j := f.Off
			if j >= len(p) {
				j = len(p) - 1
			}
			if j < 0 {
				j = 0
			}
			r.Out = append(r.Out, p[:j]...)
			r.WLens = append(r.WLens, j)
			r.FailedAt = r.NWrites
			return j, io.ErrShortWrite
		case "slow":
			simrt.SeamYield(siteWrite)
			simrt.SeamYield(siteWrite)
		}
	}
	r.Out = append(r.Out, p...)
	r.WLens = append(r.WLens, len(p))
	return len(p), nil
}

// ------------------------------------------------------------- callbacks --

type simFuncError struct{ id string }

func (e *simFuncError) Error() string { return "simulated callback fault in " + e.id }

func probeFunc(id string) (string, error) {
	sl := curSlot()
	simrt.SeamYield(siteFunc)
	if sl.res != nil {
		sl.res.Probes = append(sl.res.Probes, id)
	}
	if f := sl.fault(seamFunc); f != nil {
		switch f.Kind {
		case "error":
			return "", &simFuncError{id}
		case "panic":
			panic(&simFuncError{id})
		}
	}
	return "", nil
}

func valFunc(v interface{}) (interface{}, error) {
	sl := curSlot()
	simrt.SeamYield(siteFunc)
	if sl.res != nil {
		sl.res.Probes = append(sl.res.Probes, "val")
	}
	if f := sl.fault(seamFunc); f != nil {
		switch f.Kind {
		case "error":
			return nil, &simFuncError{"val"}
		case "panic":
			panic(&simFuncError{"val"})
		}
	}
	return v, nil
}

var simFuncs = template.FuncMap{
	"probe": probeFunc,
	"val":   valFunc,
}

// SimObj is a data value with caller-owned methods.
type SimObj struct {
	ID string
	F  interface{}
	G  interface{}
	C  bool
	L  []interface{}
	W  interface{}
	S  string
}

// M is called by {{.M}}.
func (o *SimObj) M() (string, error) {
	sl := curSlot()
	simrt.SeamYield(siteMethod)
	if sl.res != nil {
		sl.res.Probes = append(sl.res.Probes, "M:"+o.ID)
	}
	if f := sl.fault(seamMethod); f != nil {
		switch f.Kind {
		case "error":
			return "", &simFuncError{"M:" + o.ID}
		case "panic":
			panic(&simFuncError{"M:" + o.ID})
		}
	}
	return o.S, nil
}

// String keeps a *SimObj nested in a map or list from printing as an address.
func (o *SimObj) String() string { return "obj(" + o.ID + ")" }

// SimStringer is a leaf value printed through its String method.
type SimStringer struct {
	ID string
	S  string
}

func (s *SimStringer) String() string {
	sl := curSlot()
	simrt.SeamYield(siteMethod)
	if sl.res != nil {
		sl.res.Probes = append(sl.res.Probes, "String:"+s.ID)
	}
	return s.S
}

func buildVal(v *Val) interface{} {
	if v == nil {
		return nil
	}
	switch v.K {
	case "nil":
		return nil
	case "str":
		return v.S
	case "strx":
		b, err := hex.DecodeString(v.S)
		if err != nil {
			return v.S
		}
		return string(b)
	case "int":
		return v.I
	case "bool":
		return v.B
	case "map":
		m := map[string]interface{}{}
		for k, x := range v.F {
			m[k] = buildVal(x)
		}
		return m
	case "list":
		l := make([]interface{}, len(v.L))
		for i, x := range v.L {
			l[i] = buildVal(x)
		}
		return l
	case "obj":
		o := &SimObj{ID: v.S, S: v.S}
		if x := v.F["F"]; x != nil {
			o.F = buildVal(x)
		}
		if x := v.F["G"]; x != nil {
			o.G = buildVal(x)
		}
		if x := v.F["C"]; x != nil {
			o.C = x.B
		}
		if x := v.F["W"]; x != nil {
			o.W = buildVal(x)
		}
		if x := v.F["L"]; x != nil {
			for _, y := range x.L {
				o.L = append(o.L, buildVal(y))
			}
		}
		return o
	case "stringer":
		return &SimStringer{ID: v.S, S: v.S}
	case "html":
		return sconv.HTMLFromStringKnownToSatisfyTypeContract(v.S)
	case "url":
		return sconv.URLFromStringKnownToSatisfyTypeContract(v.S)
	case "tru":
		return sconv.TrustedResourceURLFromStringKnownToSatisfyTypeContract(v.S)
	case "style":
		return sconv.StyleFromStringKnownToSatisfyTypeContract(v.S)
	case "script":
		return sconv.ScriptFromStringKnownToSatisfyTypeContract(v.S)
	case "sheet":
		return sconv.StyleSheetFromStringKnownToSatisfyTypeContract(v.S)
	case "ident":
		return sconv.IdentifierFromStringKnownToSatisfyTypeContract(v.S)
	case "ptr":
		// Only pointers to fmt.Stringer values: anything else prints as an
		// address when nested in a container, which is not replayable.
		x := buildVal(v.P)
		switch y := x.(type) {
		case safehtml.HTML:
			return &y
		case safehtml.URL:
			return &y
		default:
			return x
		}
	case "ptrstr":
		// pointer to a plain string: only generated as a direct field of a
		// SimObj (which prints through String()), never inside a map or list,
		// where fmt would print its address
		x := v.S
		return &x
	case "ptrptrstr":
		x := v.S
		y := &x
		return &y
	case "ptrint":
		x := v.I
		return &x
	case "typednil":
		switch v.S {
		case "html":
			return (*safehtml.HTML)(nil)
		case "obj":
			return (*SimObj)(nil)
		case "stringer":
			return (*SimStringer)(nil)
		default:
			return (*string)(nil)
		}
	}
	panic("buildVal: unknown kind " + v.K)
}

// ---------------------------------------------------------- simulated disk --

type simFS struct{}

// readRec is what one file read delivered to the library.
type readRec struct {
	Name string
	Data []byte
	Err  bool
}

type simFile struct {
	name string
	data []byte
	off  int
	sl   *slot
	rec  *readRec
	eof  int // truncated length (-1 = none)
	eio  int // fail with EIO once off reaches this (-1 = none)
}

type simFileInfo struct {
	name string
	size int64
	dir  bool
}

func (i simFileInfo) Name() string { return i.name }
func (i simFileInfo) Size() int64  { return i.size }
func (i simFileInfo) Mode() fs.FileMode {
	if i.dir {
		return fs.ModeDir | 0o555
	}
	return 0o444
}
func (i simFileInfo) ModTime() time.Time         { return time.Time{} }
func (i simFileInfo) IsDir() bool                { return i.dir }
func (i simFileInfo) Sys() interface{}           { return nil }
func (i simFileInfo) Type() fs.FileMode          { return i.Mode().Type() }
func (i simFileInfo) Info() (fs.FileInfo, error) { return i, nil }

func (f *simFile) Stat() (fs.FileInfo, error) {
	return simFileInfo{path.Base(f.name), int64(len(f.data)), false}, nil
}
func (f *simFile) Close() error { return nil }
func (f *simFile) Read(p []byte) (int, error) {
	simrt.SeamYield(siteFS)
	if ft := f.sl.fault(seamFSRead); ft != nil {
		switch ft.Kind {
		case "eio":
			if f.rec != nil {
				f.rec.Err = true
			}
			return 0, &fs.PathError{Op: "read", Path: f.name, Err: syscall.EIO}
		case "eio_after":
			f.eio = ft.Off
		case "short":
			if len(p) > 1 {
				p = p[:1+ft.Off%len(p)]
			}
		case "trunc":
			f.eof = ft.Off
		}
	}
	data := f.data
	if f.eof >= 0 && f.eof < len(data) {
		data = data[:f.eof]
	}
	if f.eio >= 0 && f.off >= f.eio {
		if f.rec != nil {
			f.rec.Err = true
		}
		return 0, &fs.PathError{Op: "read", Path: f.name, Err: syscall.EIO}
	}
	if f.off >= len(data) {
		return 0, io.EOF
	}
	lim := len(data)
	if f.eio >= 0 && f.eio < lim && f.eio > f.off {
		lim = f.eio
	}
	n := copy(p, data[f.off:lim])
	f.off += n
	if f.rec != nil {
		f.rec.Data = append(f.rec.Data, p[:n]...)
	}
	return n, nil
}

type simDir struct {
	name    string
	entries []fs.DirEntry
	off     int
	sl      *slot
}

func (d *simDir) Stat() (fs.FileInfo, error) { return simFileInfo{path.Base(d.name), 0, true}, nil }
func (d *simDir) Close() error               { return nil }
func (d *simDir) Read([]byte) (int, error) {
	return 0, &fs.PathError{Op: "read", Path: d.name, Err: syscall.EISDIR}
}
func (d *simDir) ReadDir(n int) ([]fs.DirEntry, error) {
	simrt.SeamYield(siteFS)
	if ft := d.sl.fault(seamFSReadDir); ft != nil {
		return nil, &fs.PathError{Op: "readdir", Path: d.name, Err: syscall.EIO}
	}
	rest := d.entries[d.off:]
	if n <= 0 {
		d.off = len(d.entries)
		return rest, nil
	}
	if len(rest) == 0 {
		return nil, io.EOF
	}
	if n > len(rest) {
		n = len(rest)
	}
	d.off += n
	return rest[:n], nil
}

func diskOf(sl *slot) map[string]string {
	if sl.w == nil {
		return nil
	}
	return sl.w.disk
}

func (simFS) Open(name string) (fs.File, error) {
	sl := curSlot()
	simrt.SeamYield(siteFS)
	if !fs.ValidPath(name) {
		return nil, &fs.PathError{Op: "open", Path: name, Err: fs.ErrInvalid}
	}
	if ft := sl.fault(seamFSOpen); ft != nil {
		var e error = syscall.EIO
		switch ft.Kind {
		case "enoent":
			e = fs.ErrNotExist
		case "eacces":
			e = fs.ErrPermission
		}
		return nil, &fs.PathError{Op: "open", Path: name, Err: e}
	}
	disk := diskOf(sl)
	if data, ok := disk[name]; ok {
		f := &simFile{name: name, data: []byte(data), sl: sl, eof: -1, eio: -1}
		if sl.res != nil {
			f.rec = &readRec{Name: name}
			sl.res.Reads = append(sl.res.Reads, f.rec)
		}
		return f, nil
	}
	// directory?
	prefix := name + "/"
	if name == "." {
		prefix = ""
	}
	seen := map[string]bool{}
	var ents []fs.DirEntry
	for _, p := range sortedKeys(disk) {
		if !strings.HasPrefix(p, prefix) {
			continue
		}
		rest := p[len(prefix):]
		if i := strings.IndexByte(rest, '/'); i >= 0 {
			d := rest[:i]
			if !seen[d] {
				seen[d] = true
				ents = append(ents, simFileInfo{d, 0, true})
			}
		} else if !seen[rest] {
			seen[rest] = true
			ents = append(ents, simFileInfo{rest, int64(len(disk[p])), false})
		}
	}
	if len(ents) == 0 && name != "." {
		return nil, &fs.PathError{Op: "open", Path: name, Err: fs.ErrNotExist}
	}
	sort.Slice(ents, func(i, j int) bool { return ents[i].Name() < ents[j].Name() })
	return &simDir{name: name, entries: ents, sl: sl}, nil
}

func simReadFile(name string) ([]byte, error) {
	sl := curSlot()
	simrt.SeamYield(siteFS)
	ft := sl.fault(seamReadFile)
	if ft != nil {
		switch ft.Kind {
		case "enoent":
			return nil, &fs.PathError{Op: "open", Path: name, Err: fs.ErrNotExist}
		case "eio":
			return nil, &fs.PathError{Op: "read", Path: name, Err: syscall.EIO}
		}
	}
	data, ok := diskOf(sl)[filepath.ToSlash(name)]
	if !ok {
		return nil, &fs.PathError{Op: "open", Path: name, Err: fs.ErrNotExist}
	}
	if ft != nil && ft.Kind == "trunc" && ft.Off < len(data) {
		data = data[:ft.Off]
	}
	if sl.res != nil {
		sl.res.Reads = append(sl.res.Reads, &readRec{Name: name, Data: []byte(data)})
	}
	return []byte(data), nil
}

func simGlob(pattern string) ([]string, error) {
	sl := curSlot()
	simrt.SeamYield(siteFS)
	if _, err := filepath.Match(pattern, ""); err != nil {
		return nil, err
	}
	if ft := sl.fault(seamGlob); ft != nil {
		// filepath.Glob ignores I/O errors: an unreadable directory simply
		// yields no matches.
		return nil, nil
	}
	var out []string
	for _, p := range sortedKeys(diskOf(sl)) {
		if ok, _ := filepath.Match(pattern, p); ok {
			out = append(out, p)
		}
	}
	return out, nil
}

func init() {
	simrt.ReadFileHook = simReadFile
	simrt.GlobHook = simGlob
	simrt.DirFSHook = func(string) fs.FS { return simFS{} }
}

// ------------------------------------------------------------- operations --

func classify(err error, r *Result) {
	if err == nil {
		return
	}
	r.Err = err.Error()
	var te *template.Error
	var ee texttemplate.ExecError
	var we *simWriteError
	switch {
	case errors.As(err, &we) || errors.Is(err, io.ErrShortWrite):
		r.ErrClass = "writer"
	case errors.As(err, &ee):
		r.ErrClass = "exec"
	case errors.As(err, &te):
		r.ErrClass = "analysis"
		r.ErrCode = int(te.ErrorCode)
	default:
		r.ErrClass = "other"
	}
}

func trimStack(b []byte) string {
	s := string(b)
	lines := strings.Split(s, "\n")
	var keep []string
	for i := 0; i < len(lines); i++ {
		l := lines[i]
		if strings.Contains(l, "safehtml") || strings.Contains(l, "text/template") || strings.HasPrefix(l, "panic") {
			keep = append(keep, strings.TrimSpace(l))
		}
		if len(keep) > 24 {
			break
		}
	}
	return strings.Join(keep, "\n")
}

func (w *World) recv(op *Op) *template.Template {
	root := w.sets[op.Set]
	if root == nil {
		return nil
	}
	if op.Held > 0 && op.Held < len(w.handles) && w.handles[op.Held] != nil {
		return w.handles[op.Held]
	}
	if op.Recv != "" {
		if t := root.Lookup(op.Recv); t != nil {
			return t
		}
	}
	return root
}

// member reports (only in single-task phases, where the extra Lookup cannot
// perturb a schedule under test) whether op.Name is a member of op's set.
func (w *World) member(op *Op) bool {
	if len(w.c.Tasks) > 1 {
		return false
	}
	root := w.sets[op.Set]
	return root != nil && root.Lookup(op.Name) != nil
}

// trustedFSFor builds the TrustedFS of a ParseFS call: directly around the
// simulated disk, through TrustedFSFromTrustedSource (os.DirFS, redirected to
// the simulated disk by rule R4), or a Sub of it.
func trustedFSFor(op *Op) (template.TrustedFS, error) {
	switch op.Via {
	case "dirfs":
		return template.TrustedFSFromTrustedSource(ts(".")), nil
	case "sub":
		return template.TrustedFSForSimulation(simFS{}).Sub(ts("sub"))
	}
	return template.TrustedFSForSimulation(simFS{}), nil
}

func tt(s string) template.TrustedTemplate {
	return tconv.TrustedTemplateFromStringKnownToSatisfyTypeContract(s)
}

func ts(s string) template.TrustedSource {
	return tconv.TrustedSourceFromStringKnownToSatisfyTypeContract(s)
}

// exec performs one operation and returns what happened.  Panics of the code
// under test are recovered here (the API boundary) and recorded.
func (w *World) exec(op *Op, task int, res *Result) {
	sl := curSlot()
	sl.w, sl.op, sl.res = w, op, res
	sl.cnt = [nSeams]int{}
	res.OpID, res.Task, res.Kind = op.ID, task, op.Kind
	simrt.OpBegin()
	simrt.SeamYield(siteOpBegin)
	res.Inv = simrt.Seq()
	defer func() {
		if r := recover(); r != nil {
			if a, ok := r.(*simrt.Abort); ok {
				res.Aborted = a.Why
				res.Ret = simrt.Seq()
				sl.op, sl.res = nil, nil
				panic(r)
			}
			res.Panic = fmt.Sprint(r)
			buf := make([]byte, 32768)
			res.Stack = trimStack(buf[:runtime.Stack(buf, false)])
		}
		res.Ret = simrt.Seq()
		res.Done = true
		res.OutS = string(res.Out)
		sl.op, sl.res = nil, nil
	}()
	w.do(op, res)
	simrt.SeamYield(siteOpReturn)
}

func (w *World) do(op *Op, res *Result) {
	if op.Kind == opNew && w.sets[op.Set] == nil {
		w.sets[op.Set] = template.New(op.Name).Funcs(simFuncs)
		res.Target = op.Name
		res.Created, res.How, res.Handle = op.Set+1, "new", op.Name
		return
	}
	// Function forms that create a set.
	if w.sets[op.Set] == nil {
		var t *template.Template
		var err error
		switch op.Kind {
		case opParseFiles:
			if op.Via == "const" {
				t, err = parseFilesConst(nil, op.Files)
			} else {
				var srcs []template.TrustedSource
				for _, f := range op.Files {
					srcs = append(srcs, ts(f))
				}
				t, err = template.ParseFilesFromTrustedSources(srcs...)
			}
		case opParseGlob:
			if op.Via == "const" {
				t, err = parseGlobConst(nil, op.Text)
			} else {
				t, err = template.ParseGlobFromTrustedSource(ts(op.Text))
			}
		case opParseFS:
			var tfs template.TrustedFS
			tfs, err = trustedFSFor(op)
			if err == nil {
				t, err = template.ParseFS(tfs, op.Files...)
			}
		default:
			res.Skipped = "no such set"
			return
		}
		classify(err, res)
		if err == nil && t != nil {
			// Function forms cannot be given a FuncMap before parsing, so the
			// files they load use no sim functions; add them afterwards for
			// later Parse calls.
			w.sets[op.Set] = t.Funcs(simFuncs)
			res.Target = t.Name()
			res.Created, res.How, res.Handle = op.Set+1, "function-form", t.Name()
		}
		return
	}
	t := w.recv(op)
	if t == nil {
		res.Skipped = "no receiver"
		return
	}
	switch op.Kind {
	case opNew:
		nt := t.New(op.Name)
		res.Target = nt.Name()
	case opParse:
		_, err := t.ParseFromTrustedTemplate(tt(op.Text))
		classify(err, res)
	case opParseConst:
		_, err := parseConst(t, op.Const)
		classify(err, res)
	case opParseFiles:
		var err error
		if op.Via == "const" {
			_, err = parseFilesConst(t, op.Files)
		} else {
			var srcs []template.TrustedSource
			for _, f := range op.Files {
				srcs = append(srcs, ts(f))
			}
			_, err = t.ParseFilesFromTrustedSources(srcs...)
		}
		classify(err, res)
	case opParseGlob:
		var err error
		if op.Via == "const" {
			_, err = parseGlobConst(t, op.Text)
		} else {
			_, err = t.ParseGlobFromTrustedSource(ts(op.Text))
		}
		classify(err, res)
	case opParseFS:
		tfs, err := trustedFSFor(op)
		if err == nil {
			_, err = t.ParseFS(tfs, op.Files...)
		}
		classify(err, res)
	case opClone:
		c, err := t.Clone()
		classify(err, res)
		if err == nil && c != nil {
			if w.sets[op.New] == nil {
				// The clone's root handle is the clone of the parent's root
				// handle, whatever member Clone was called on, so that "the
				// set's root" names the same template in parent and clone.
				h := c
				if pr := w.sets[op.Set]; pr != nil {
					if x := c.Lookup(pr.Name()); x != nil {
						h = x
					}
				}
				w.sets[op.New] = h
				res.Created, res.How, res.Handle = op.New+1, "clone", h.Name()
				// Which members did Clone carry over?  (Templates declared
				// with New and never parsed are not.)
				for _, x := range c.Templates() {
					res.Names = append(res.Names, x.Name())
				}
				sort.Strings(res.Names)
				var pn []string
				for _, x := range t.Templates() {
					pn = append(pn, x.Name())
				}
				sort.Strings(pn)
				// The flat-set comparison of C07 is meaningless only when Clone
				// legitimately left something out: members that have no body
				// (declared with New, never parsed).  A member WITH a body that
				// is missing from the clone is a defect the comparison must see.
				defined := map[string]bool{}
				if ds := t.DefinedTemplates(); strings.Contains(ds, ": ") {
					for _, q := range strings.Split(ds[strings.Index(ds, ": ")+2:], ", ") {
						defined[strings.Trim(q, `"`)] = true
					}
				}
				have := map[string]bool{}
				for _, n := range res.Names {
					have[n] = true
				}
				res.Complete = true
				for _, n := range pn {
					if !have[n] && !defined[n] {
						res.Complete = false
					}
				}
			}
			res.Target = c.Name()
		}
	case opOption:
		t.Option(op.Text)
	case opCSP:
		t.CSPCompatible()
	case opFuncs:
		// registers one more template function, named op.Name, on this set
		name := op.Name
		t.Funcs(template.FuncMap{name: func() string { return "<" + name + ">" }})
	case opDelims:
		lr := strings.SplitN(op.Text, " ", 2)
		if len(lr) == 2 {
			t.Delims(lr[0], lr[1])
		}
	case opExec:
		res.Target = t.Name()
		res.Exists = true
		err := t.Execute(&SimWriter{res}, buildVal(op.Data))
		classify(err, res)
	case opExecTmpl:
		res.Target = op.Name
		res.Exists = w.member(op)
		err := t.ExecuteTemplate(&SimWriter{res}, op.Name, buildVal(op.Data))
		classify(err, res)
	case opExecHTML:
		res.Target = t.Name()
		res.Exists = true
		h, err := t.ExecuteToHTML(buildVal(op.Data))
		classify(err, res)
		res.HTML = h.String()
		res.Out = []byte(h.String())
	case opExecTmplHTML:
		res.Target = op.Name
		res.Exists = w.member(op)
		h, err := t.ExecuteTemplateToHTML(op.Name, buildVal(op.Data))
		classify(err, res)
		res.HTML = h.String()
		res.Out = []byte(h.String())
	case opLookup:
		lt := t.Lookup(op.Name)
		if op.Hold > 0 && op.Hold < len(w.handles) {
			w.handles[op.Hold] = lt
		}
		res.Found = lt != nil
		if lt != nil {
			res.Target = lt.Name()
		}
	case opLookupExec:
		lt := t.Lookup(op.Name)
		res.Found = lt != nil
		if lt == nil {
			return
		}
		res.Target = lt.Name()
		res.Exists = true
		err := lt.Execute(&SimWriter{res}, buildVal(op.Data))
		classify(err, res)
	case opTemplates:
		for _, x := range t.Templates() {
			res.Names = append(res.Names, x.Name())
		}
		sort.Strings(res.Names)
	case opTemplatesEx:
		all := t.Templates()
		sort.Slice(all, func(i, j int) bool { return all[i].Name() < all[j].Name() })
		sl := curSlot()
		for _, x := range all {
			res.Names = append(res.Names, x.Name())
			sub := &Result{OpID: op.ID, Task: res.Task, Kind: opExec, Target: x.Name()}
			res.Subs = append(res.Subs, sub)
			sl.res = sub
			sub.Inv = simrt.Seq()
			err := x.Execute(&SimWriter{sub}, buildVal(op.Data))
			classify(err, sub)
			sub.Ret = simrt.Seq()
			sub.Done = true
			sub.OutS = string(sub.Out)
			sl.res = res
		}
	case opName:
		res.Target = t.Name()
	case opDefined:
		s := t.DefinedTemplates()
		// "; defined templates are: "a", "b"" in map order: keep the set.
		if i := strings.Index(s, ": "); i >= 0 {
			parts := strings.Split(s[i+2:], ", ")
			sort.Strings(parts)
			res.Names = parts
		}
	default:
		res.Skipped = "unknown op kind " + op.Kind
	}
}
