#!/usr/bin/env python3
"""Systematic sensitivity study: every simple syntactic mutant (statement deletion,
condition negation, operator swap) of the template package's state-handling code that
still compiles and passes the pinned suite is given to all five quick checks.
Survivors of the checks are listed for inspection (equivalent mutant or blind spot?).
usage: automut.py [--from i] [--to j] [--out file]   (run it from a snapshot: vp run)"""
import subprocess, os, sys, json, shutil, time, argparse
VERIF = os.path.dirname(os.path.dirname(os.path.abspath(__file__)))
ENV = dict(os.environ, GOFLAGS="-mod=mod", GOPROXY="off", GOSUMDB="off", GOTOOLCHAIN="local")
TARGETS = [
 ("template/template.go", ""),
 ("template/escape.go", "escapeTemplate,escapeTree,computeOutCtx,escapeTemplateBody,escapeListConditionally,commit,template,arbitraryTemplate,mangle,editActionNode,editTemplateNode,editTextNode,escapeBranch,escapeList,escape,escapeAction,ensurePipelineContains,makeEscaper"),
 ("template/trustedfs.go", ""),
]
TARGETS2 = [
 ("template/escape.go", ""),
 ("template/transition.go", ""),
 ("template/context.go", ""),
 ("template/sanitize.go", ""),
 ("template/url.go", ""),
]
def sh(cmd, cwd=None, env=ENV, timeout=7200):
    try:
        p = subprocess.run(cmd, shell=True, cwd=cwd, env=env, stdout=subprocess.PIPE, stderr=subprocess.STDOUT, text=True, errors="replace", timeout=timeout)
        return p.returncode, p.stdout
    except subprocess.TimeoutExpired:
        return 124, "timeout"
def main():
    ap = argparse.ArgumentParser(); ap.add_argument("--from", dest="lo", type=int, default=0); ap.add_argument("--to", dest="hi", type=int, default=10**9)
    ap.add_argument("--out", default=os.path.join(VERIF, "sim", "automut_result.json")); ap.add_argument("--set", type=int, default=1); a = ap.parse_args()
    targets, checks = (TARGETS, ["C08", "C05", "C06", "C07", "C09"]) if a.set == 1 else (TARGETS2, ["C08", "C06", "C05"])
    amut = os.path.join(VERIF, "bin", "automutate")
    if not os.path.exists(amut):
        os.makedirs(os.path.join(VERIF, "bin"), exist_ok=True)
        rc, out = sh("go build -o %s ." % amut, cwd=os.path.join(VERIF, "sim", "automutate")); assert rc == 0, out
    muts = []
    for f, funcs in targets:
        rc, out = sh("%s -file /repo/%s -funcs '%s' -list" % (amut, f, funcs))
        for line in out.splitlines():
            k, desc = line.split("\t", 1); muts.append((f, funcs, int(k), desc))
    print("mutants:", len(muts), flush=True)
    results = []
    wt = "/tmp/automut-wt"
    for idx, (f, funcs, k, desc) in enumerate(muts):
        if idx < a.lo or idx >= a.hi: continue
        sh("git -C /repo worktree remove --force %s" % wt); shutil.rmtree(wt, ignore_errors=True)
        sh("git -C /repo worktree add --detach %s HEAD" % wt)
        rec = {"i": idx, "file": f, "desc": desc}
        try:
            rc, out = sh("%s -file %s/%s -funcs '%s' -k %d -out %s/%s" % (amut, wt, f, funcs, k, wt, f))
            rc, out = sh("go build ./... && go vet ./template 2>&1 | grep -q 'declared and not used' ; go build ./...", cwd=wt, timeout=120)
            if rc != 0: rec["status"] = "does-not-compile"; continue
            rc, out = sh("timeout 90 go test -vet=off -count=1 ./...", cwd=wt, timeout=150)
            if rc != 0: rec["status"] = "killed-by-suite"; continue
            rec["status"] = "survives-suite"; rec["checks"] = {}
            for c in checks:
                rc, out = sh("%s/check %s quick" % (VERIF, c), env=dict(ENV, VERIF_REPO=wt, VERIF_HARNESS_ARGS="-nomin -maxviol 2"), cwd=VERIF)
                cls = sorted(set(l.split("class=")[1].split()[0] for l in out.splitlines() if l.startswith("violation class=")))
                rec["checks"][c] = {"rc": rc, "classes": cls}
                sh("rm -f %s/replays/*.json" % VERIF)
                if rc == 1: rec["caught_by"] = c; break
                if rc not in (0, 1): rec.setdefault("infra", []).append(c)
            if "caught_by" not in rec: rec["status"] = "SURVIVES-CHECKS"
        finally:
            results.append(rec)
            print(idx, rec.get("status"), rec.get("caught_by", ""), rec.get("infra", ""), "|", desc, flush=True)
            json.dump(results, open(a.out, "w"), indent=1)
    sh("git -C /repo worktree remove --force %s" % wt)
    surv = [r for r in results if r["status"] == "SURVIVES-CHECKS"]
    print("survive suite:", sum(1 for r in results if r["status"] in ("survives-suite", "SURVIVES-CHECKS")), "caught by checks:", sum(1 for r in results if "caught_by" in r), "survive checks:", len(surv))
    for r in surv: print("  SURVIVOR", r["i"], r["desc"])
if __name__ == "__main__": main()
