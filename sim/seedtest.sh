#!/bin/bash
# seedtest.sh <seed-dir> <A|B> <id> <prop> [checks...]
# Confirms a sub-agent's seeded change (suite passes with it, demo fails with it, demo passes without it),
# stores it under /verif/seeded/<id>/ and runs the named checks against a worktree with the change applied.
set -u
export GOFLAGS=-mod=mod GOPROXY=off GOSUMDB=off GOTOOLCHAIN=local
SRC=$1; V=$2; ID=$3; PROP=$4; shift 4; CHECKS="$*"
VERIF=/verif
WT=/tmp/seedwt-$ID
git -C /repo worktree remove --force $WT >/dev/null 2>&1; rm -rf $WT
git -C /repo worktree add --detach $WT HEAD >/dev/null 2>&1 || exit 2
trap 'git -C /repo worktree remove --force $WT >/dev/null 2>&1; rm -rf $WT' EXIT
cp $SRC/seed_${V}_test.go $WT/template/ || exit 2
RACE=""; grep -q "race" $SRC/NOTES.md 2>/dev/null && [ "$PROP" = C09 ] && RACE="-race"
echo "== $ID: demo WITHOUT the change (must pass)"
(cd $WT && go test $RACE -vet=off -count=1 -run 'Seed|seed' ./template/ 2>&1 | tail -3); R0=${PIPESTATUS[0]}
(cd $WT && git apply $SRC/$V.diff) || { echo "patch does not apply"; exit 2; }
echo "== $ID: pinned suite WITH the change (must pass; demo excluded)"
mv $WT/template/seed_${V}_test.go /tmp/seed_${ID}_demo.go
(cd $WT && go build ./... && go test -vet=off -count=1 ./... 2>&1 | grep -v "no test files" | tail -4)
cp /tmp/seed_${ID}_demo.go $WT/template/seed_${V}_test.go
echo "== $ID: demo WITH the change (must fail)"
(cd $WT && go test $RACE -vet=off -count=1 -run 'Seed|seed' ./template/ 2>&1 | tail -4)
rm -f $WT/template/seed_${V}_test.go /tmp/seed_${ID}_demo.go
mkdir -p $VERIF/seeded/$ID
cp $SRC/$V.diff $VERIF/seeded/$ID/patch.diff; cp $SRC/seed_${V}_test.go $VERIF/seeded/$ID/demo_test.go
for c in $CHECKS; do
  echo "== $ID: ./check $c quick against the changed tree"
  cd $VERIF; VERIF_REPO=$WT ./check $c quick 2>&1 | grep "^violation\|^VIOLATION\|^runs=\|^check:" | cut -c1-200
  echo "   exit=${PIPESTATUS[0]}"
done
mkdir -p $VERIF/seeded/$ID/replays; mv $VERIF/replays/*.json $VERIF/seeded/$ID/replays/ 2>/dev/null; true
