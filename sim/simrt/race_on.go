//go:build race
// +build race

package simrt

import "runtime"

// RaceBuild reports whether the binary was built with -race.
const RaceBuild = true

//go:norace
func raceDisable() { runtime.RaceDisable() }

//go:norace
func raceEnable() { runtime.RaceEnable() }
