package simrt

import (
	"io/fs"
	"io/ioutil"
	"os"
	"path/filepath"
	"sync"
	texttemplate "text/template"
)

// Environment seams used by the instrumented package template (rule R4).
// When no hook is installed they are the real calls.
var (
	ReadFileHook func(name string) ([]byte, error)
	GlobHook     func(pattern string) ([]string, error)
	DirFSHook    func(dir string) fs.FS
)

// ReadFile replaces ioutil.ReadFile / os.ReadFile.
func ReadFile(name string) ([]byte, error) {
	if ReadFileHook != nil {
		return ReadFileHook(name)
	}
	return ioutil.ReadFile(name)
}

// Glob replaces filepath.Glob.
func Glob(pattern string) ([]string, error) {
	if GlobHook != nil {
		return GlobHook(pattern)
	}
	return filepath.Glob(pattern)
}

// DirFS replaces os.DirFS.
func DirFS(dir string) fs.FS {
	if DirFSHook != nil {
		return DirFSHook(dir)
	}
	return os.DirFS(dir)
}

// The instrumented copy of GOROOT text/template (build overlay) cannot import
// this package; it calls through hook variables that are pointed here.
func init() {
	texttemplate.SimYield = func(site int) { Yield(site) }
	texttemplate.SimLock = func(m *sync.Mutex) { Lock(m) }
	texttemplate.SimUnlock = func(m *sync.Mutex) { Unlock(m) }
	texttemplate.SimRWLock = func(m *sync.RWMutex) { RWLock(m) }
	texttemplate.SimRWUnlock = func(m *sync.RWMutex) { RWUnlock(m) }
	texttemplate.SimRLock = func(m *sync.RWMutex) { RLock(m) }
	texttemplate.SimRUnlock = func(m *sync.RWMutex) { RUnlock(m) }
	texttemplate.SimMapKeys = MapKeys
}
