// Package simrt is the run-time half of the deterministic simulator used by
// /verif to check google/safehtml (see /verif/DESIGN.md §3).
//
// It is copied into the scratch copy of the repository as
// github.com/google/safehtml/simrt so that the instrumented package template
// can import it.  The module is "go 1.16": no generics here.
//
// Exactly one task (a real goroutine) runs at any instant; all others are
// parked on their own channel.  Every hand-over ("baton pass") is wrapped in
// runtime.RaceDisable/RaceEnable so that the race detector does not see the
// scheduler's channels as synchronisation between tasks (DESIGN §3.4).  All
// functions that touch scheduler state are //go:norace and use fixed arrays.
package simrt

import (
	"fmt"
	"runtime"
	"sync"
	"unsafe"
)

// MaxTasks bounds the number of simulated caller goroutines in one run.
const MaxTasks = 8

// Switch is one explicit scheduling decision: when task Task reaches its
// At-th yield (task-local count), control goes to task To.  Kind says at which
// kind of point the decision applies: 'y' voluntary yield, 'b' the task
// blocked on a lock, 'e' the task ended.
type Switch struct {
	Task int    `json:"t"`
	At   uint64 `json:"at"`
	To   int    `json:"to"`
	Kind byte   `json:"k"`
}

// Abort is the panic value used to unwind tasks when a run is abandoned
// (step budget exceeded or deadlock).  It implements error so that code which
// converts recovered values with e.(error) keeps working.
type Abort struct{ Why string }

func (a *Abort) Error() string { return "simrt: run aborted: " + a.Why }

const (
	stUnused = iota
	stRunnable
	stBlocked
	stDone
)

type task struct {
	wake      chan struct{}
	state     int
	blockedOn unsafe.Pointer
	yields    uint64 // task-local yield count (the schedule's clock)
	opYields  uint64 // yields since the current API call began
	swIdx     int    // next entry of sw[] to consider
	recent    [6]int // the last few distinct sites visited (tight-loop detection)
	streak    uint64 // consecutive steps that stayed within `recent`
	aborting  bool   // this task has been sent the Abort panic
	grace     uint64 // yields let through since then (deferred calls while unwinding)
	fn        func()
	panicked  interface{}
	stack     []byte
}

// Config describes one run.
type Config struct {
	// Switches is the explicit schedule (replay mode).  Ignored in record mode.
	Switches []Switch
	// Record mode: decisions are drawn from a private PRNG seeded with
	// RecordSeed and appended to the recorded schedule (see Recorded()).
	Record     bool
	RecordSeed uint64
	PYield     float64 // probability of a switch at a plain yield
	PSeam      float64 // probability of a switch at a seam / lock event
	// First is the task that runs first.
	First int
	// OpBudget is the number of yields one API call may take (0 = default).
	OpBudget uint64
}

// Stats are the counters of one run.
type Stats struct {
	Yields      uint64 // all yields (the logical step counter, "simulated time")
	Switches    uint64 // preemptions actually taken
	LockBlocks  uint64 // times a task found a lock held and was descheduled
	Seams       uint64
	MapKeysHits uint64
	Hash        uint64 // hash of the (task, site, kind) event sequence
	IlvHash     uint64 // hash of (task, site) at switch points only
	Deadlock    bool
	Hang        bool
	HangTask    int
	DeadlockMsg string
}

var (
	active   bool
	aborted  bool
	abortWhy string
	cur      int
	ntasks   int
	tasks    [MaxTasks]task
	sw       [MaxTasks][]Switch
	recBuf   [1 << 16]Switch
	nrec     int
	recMode  bool
	rng      uint64
	pYield   uint64 // thresholds on a 32-bit scale
	pSeam    uint64
	opBudget uint64
	stats    Stats
	seq      uint64
	doneCh   chan int
	mapSalt  uint64

	holderTab [64]struct {
		m unsafe.Pointer
		t int
	}
)

// Active reports whether a simulation is running.
//
//go:norace
func Active() bool { return active }

// Cur returns the id of the running task, or -1 outside a simulation.
//
//go:norace
func Cur() int {
	if !active {
		return -1
	}
	return cur
}

// Seq returns the global event sequence number and advances it.
//
//go:norace
func Seq() uint64 {
	seq++
	return seq
}

// SetMapSalt sets the salt that decides the iteration order handed out by
// MapKeys.  It applies inside and outside simulations.
//
//go:norace
func SetMapSalt(s uint64) { mapSalt = s }

//go:norace
func splitmix(x *uint64) uint64 {
	*x += 0x9e3779b97f4a7c15
	z := *x
	z = (z ^ (z >> 30)) * 0xbf58476d1ce4e5b9
	z = (z ^ (z >> 27)) * 0x94d049bb133111eb
	return z ^ (z >> 31)
}

//go:norace
func mix(h, v uint64) uint64 {
	h ^= v + 0x9e3779b97f4a7c15 + (h << 6) + (h >> 2)
	return h
}

// Begin prepares a run.  Tasks are added with Go and started with Run.
//
//go:norace
func Begin(c Config) {
	if active {
		panic("simrt: Begin while a simulation is active")
	}
	for i := range tasks {
		tasks[i] = task{}
		sw[i] = sw[i][:0]
	}
	for i := range holderTab {
		holderTab[i].m = nil
	}
	for i := range onceTab {
		if onceTab[i].o != nil && !onceTab[i].running {
			// keep "done" knowledge across runs only through the real Once
			onceTab[i].o = nil
		}
	}
	ntasks = 0
	aborted = false
	abortWhy = ""
	stats = Stats{}
	seq = 0
	nrec = 0
	recMode = c.Record
	rng = c.RecordSeed
	pYield = uint64(c.PYield * 4294967296.0)
	pSeam = uint64(c.PSeam * 4294967296.0)
	opBudget = c.OpBudget
	if opBudget == 0 {
		opBudget = 2000000000
	}
	if !recMode {
		for _, s := range c.Switches {
			if s.Task >= 0 && s.Task < MaxTasks {
				sw[s.Task] = append(sw[s.Task], s)
			}
		}
	}
	cur = c.First
}

// Go registers a task.  It returns the task id.
//
//go:norace
func Go(fn func()) int {
	if ntasks >= MaxTasks {
		panic("simrt: too many tasks")
	}
	id := ntasks
	ntasks++
	tasks[id].wake = make(chan struct{}, 1)
	tasks[id].state = stRunnable
	tasks[id].fn = fn
	return id
}

// Run runs all registered tasks to completion under the schedule and returns
// the run's statistics and the schedule as recorded or replayed.
func Run() (Stats, []Switch) {
	if ntasks == 0 {
		return stats, nil
	}
	doneCh = make(chan int, MaxTasks)
	setup()
	n := ntasks
	for i := 0; i < n; i++ {
		go taskMain(i)
	}
	kick()
	for i := 0; i < n; i++ {
		<-doneCh // real, race-visible join
	}
	return finish()
}

//go:norace
func setup() {
	if cur < 0 || cur >= ntasks {
		cur = 0
	}
	active = true
}

//go:norace
func kick() {
	raceDisable()
	tasks[cur].wake <- struct{}{}
	raceEnable()
}

//go:norace
func finish() (Stats, []Switch) {
	active = false
	out := make([]Switch, nrec)
	copy(out, recBuf[:nrec])
	return stats, out
}

// TaskPanic returns what task id panicked with (nil if it did not) and the stack.
//
//go:norace
func TaskPanic(id int) (interface{}, []byte) { return tasks[id].panicked, tasks[id].stack }

func taskMain(id int) {
	waitFirst(id)
	defer taskExit(id)
	runTask(id)
}

//go:norace
func waitFirst(id int) {
	raceDisable()
	<-tasks[id].wake
	raceEnable()
}

func runTask(id int) {
	defer func() {
		if r := recover(); r != nil {
			if _, ok := r.(*Abort); ok {
				return
			}
			notePanic(id, r, stackOf())
		}
	}()
	taskFn(id)()
}

//go:norace
func taskFn(id int) func() { return tasks[id].fn }

func stackOf() []byte {
	b := make([]byte, 16384)
	return b[:runtime.Stack(b, false)]
}

//go:norace
func notePanic(id int, r interface{}, st []byte) {
	tasks[id].panicked = r
	tasks[id].stack = st
}

//go:norace
func taskExit(id int) {
	tasks[id].state = stDone
	next := chooseNext(id, 'e')
	if next >= 0 {
		cur = next
		raceDisable()
		tasks[next].wake <- struct{}{}
		raceEnable()
	} else if !allDone() {
		// Everybody else is blocked: deadlock.  Abort them one by one.
		declareDeadlock()
		wakeAnyBlocked()
	}
	doneCh <- id
}

//go:norace
func allDone() bool {
	for i := 0; i < ntasks; i++ {
		if tasks[i].state != stDone {
			return false
		}
	}
	return true
}

//go:norace
func declareDeadlock() {
	if !stats.Deadlock {
		stats.Deadlock = true
		msg := "deadlock:"
		for i := 0; i < ntasks; i++ {
			if tasks[i].state == stBlocked {
				msg += fmt.Sprintf(" task%d waits for lock %p held by task %d;", i, tasks[i].blockedOn, holderOf(tasks[i].blockedOn))
			}
		}
		stats.DeadlockMsg = msg
	}
	aborted = true
	abortWhy = "deadlock"
}

//go:norace
func wakeAnyBlocked() {
	for i := 0; i < ntasks; i++ {
		if tasks[i].state == stBlocked {
			tasks[i].state = stRunnable
			cur = i
			raceDisable()
			tasks[i].wake <- struct{}{}
			raceEnable()
			return
		}
	}
}

// chooseNext picks the task to run when task me cannot continue (kind 'b' or
// 'e').  Returns -1 if no task is runnable.
//
//go:norace
func chooseNext(me int, kind byte) int {
	nrun := 0
	var cand [MaxTasks]int
	for i := 0; i < ntasks; i++ {
		if i != me && tasks[i].state == stRunnable {
			cand[nrun] = i
			nrun++
		}
	}
	if nrun == 0 {
		return -1
	}
	t := &tasks[me]
	choice := cand[0]
	if recMode {
		choice = cand[int(splitmix(&rng)%uint64(nrun))]
		record(Switch{Task: me, At: t.yields, To: choice, Kind: kind})
	} else {
		s := sw[me]
		for t.swIdx < len(s) && (s[t.swIdx].At < t.yields || (s[t.swIdx].At == t.yields && s[t.swIdx].Kind == 'y')) {
			t.swIdx++
		}
		if t.swIdx < len(s) && s[t.swIdx].At == t.yields && s[t.swIdx].Kind == kind {
			to := s[t.swIdx].To
			t.swIdx++
			if to >= 0 && to < ntasks && to != me && tasks[to].state == stRunnable {
				choice = to
			}
		}
	}
	stats.IlvHash = mix(stats.IlvHash, uint64(me)<<40|uint64(choice)<<32|uint64(kind))
	return choice
}

//go:norace
func record(s Switch) {
	if nrec < len(recBuf) {
		recBuf[nrec] = s
		nrec++
	}
}

// switchTo hands the baton from the running task to next and parks the caller
// until it is scheduled again.
//
//go:norace
func switchTo(next int) {
	me := cur
	cur = next
	raceDisable()
	tasks[next].wake <- struct{}{}
	<-tasks[me].wake
	raceEnable()
	if aborted {
		abortPoint()
	}
}

// abortPoint is called at a scheduling point of an aborted run.  The first
// time a task gets here it is sent the Abort panic.  While that panic unwinds
// the task's stack, deferred instrumented functions reach scheduling points
// again: panicking in each of them would make unwinding a deep stack
// quadratic, so those are let through.  If the task nevertheless keeps going
// (the panic was swallowed by a recover in the code under test) it is sent the
// panic again after a large number of further steps.
//
//go:norace
func abortPoint() {
	t := &tasks[cur]
	if t.aborting && t.grace < 20000000 {
		t.grace++
		return
	}
	t.aborting = true
	t.grace = 0
	panic(&Abort{abortWhy})
}

// tightLoop notes a step at site and reports whether the running call has
// spent an absurd number of consecutive steps within the same handful of
// sites: a loop that makes no progress.  (A legitimate long computation -
// text/template recursing 100 000 levels deep - cycles through dozens of
// sites per level and never builds up a streak.)
//
//go:norace
func tightLoop(t *task, site int) bool {
	for i := range t.recent {
		if t.recent[i] == site {
			t.streak++
			return t.streak > 3000000
		}
	}
	copy(t.recent[1:], t.recent[:5])
	t.recent[0] = site
	t.streak = 0
	return false
}

// Yield is a scheduling point.  site identifies the program location.
//
//go:norace
func Yield(site int) {
	if !active {
		return
	}
	yieldPoint(site, false)
}

// Tick counts a step towards the running call's step budget without being a
// scheduling point and without entering the event log.  It is what the
// instrumented pure packages (safehtml, internal/safehtmlutil) call: a loop
// there that never ends is then caught by the budget, while lazily
// initialised tables in those packages cannot shift the schedule clock.
//
//go:norace
func Tick(site int) {
	if !active {
		return
	}
	if aborted {
		abortPoint()
		return
	}
	t := &tasks[cur]
	t.opYields++
	if t.opYields > opBudget || tightLoop(t, site) {
		stats.Hang = true
		stats.HangTask = cur
		aborted = true
		abortWhy = "step budget exceeded"
		abortPoint()
	}
}

// SeamYield is a scheduling point at a seam event (a write, a callback, a
// lock operation): same as Yield but with the seam switch probability.
//
//go:norace
func SeamYield(site int) {
	if !active {
		return
	}
	stats.Seams++
	yieldPoint(site, true)
}

// OpBegin resets the per-call step budget of the running task.
//
//go:norace
func OpBegin() {
	if active {
		tasks[cur].opYields = 0
		tasks[cur].streak = 0
	}
}

//go:norace
func yieldPoint(site int, seam bool) {
	if aborted {
		abortPoint()
		return
	}
	t := &tasks[cur]
	t.yields++
	t.opYields++
	stats.Yields++
	seq++
	stats.Hash = mix(stats.Hash, uint64(cur)<<32|uint64(uint32(site)))
	if t.opYields > opBudget || (site > 0 && tightLoop(t, site)) {
		stats.Hang = true
		stats.HangTask = cur
		aborted = true
		abortWhy = "step budget exceeded"
		abortPoint()
		return
	}
	if ntasks < 2 {
		return
	}
	to := -1
	if recMode {
		thr := pYield
		if seam {
			thr = pSeam
		}
		if thr != 0 && (splitmix(&rng)&0xffffffff) < thr {
			// choose among other runnable tasks
			nrun := 0
			var cand [MaxTasks]int
			for i := 0; i < ntasks; i++ {
				if i != cur && tasks[i].state == stRunnable {
					cand[nrun] = i
					nrun++
				}
			}
			if nrun > 0 && nrec < len(recBuf)-64 {
				to = cand[int(splitmix(&rng)%uint64(nrun))]
				record(Switch{Task: cur, At: t.yields, To: to, Kind: 'y'})
			}
		}
	} else {
		s := sw[cur]
		for t.swIdx < len(s) && s[t.swIdx].At < t.yields {
			t.swIdx++
		}
		if t.swIdx < len(s) && s[t.swIdx].At == t.yields && s[t.swIdx].Kind == 'y' {
			cto := s[t.swIdx].To
			t.swIdx++
			if cto >= 0 && cto < ntasks && cto != cur && tasks[cto].state == stRunnable {
				to = cto
			}
		}
	}
	if to >= 0 {
		stats.Switches++
		stats.IlvHash = mix(stats.IlvHash, uint64(cur)<<40|uint64(to)<<32|uint64(uint32(site)))
		switchTo(to)
	}
}

//go:norace
func setHolder(m unsafe.Pointer, t int) {
	free := -1
	for i := range holderTab {
		if holderTab[i].m == m {
			holderTab[i].t = t
			return
		}
		if holderTab[i].m == nil && free < 0 {
			free = i
		}
	}
	if free >= 0 {
		holderTab[free].m = m
		holderTab[free].t = t
	}
}

//go:norace
func clearHolder(m unsafe.Pointer) {
	for i := range holderTab {
		if holderTab[i].m == m {
			holderTab[i].m = nil
			return
		}
	}
}

//go:norace
func holderOf(m unsafe.Pointer) int {
	for i := range holderTab {
		if holderTab[i].m == m {
			return holderTab[i].t
		}
	}
	return -1
}

// block deschedules the running task until somebody releases m.
//
//go:norace
func block(m unsafe.Pointer) {
	t := &tasks[cur]
	t.state = stBlocked
	t.blockedOn = m
	stats.LockBlocks++
	next := chooseNext(cur, 'b')
	if next < 0 {
		// Nobody can run: deadlock (a task waiting for a lock it, or another
		// blocked task, holds).
		declareDeadlock()
		t.state = stRunnable
		panic(&Abort{abortWhy})
	}
	switchTo(next)
}

//go:norace
func wake(m unsafe.Pointer) {
	for i := 0; i < ntasks; i++ {
		if tasks[i].state == stBlocked && tasks[i].blockedOn == m {
			tasks[i].state = stRunnable
			tasks[i].blockedOn = nil
		}
	}
}

// Lock replaces m.Lock() in instrumented code.
//
//go:norace
func Lock(m *sync.Mutex) {
	if !active {
		m.Lock()
		return
	}
	yieldPoint(-1, true)
	for !m.TryLock() {
		block(unsafe.Pointer(m))
	}
	setHolder(unsafe.Pointer(m), cur)
}

// Unlock replaces m.Unlock() in instrumented code.
//
//go:norace
func Unlock(m *sync.Mutex) {
	if !active {
		m.Unlock()
		return
	}
	clearHolder(unsafe.Pointer(m))
	m.Unlock()
	wake(unsafe.Pointer(m))
	if aborted {
		// Called from a deferred function while unwinding: do not panic again.
		return
	}
	yieldPoint(-2, true)
}

// RWLock replaces rw.Lock().
//
//go:norace
func RWLock(m *sync.RWMutex) {
	if !active {
		m.Lock()
		return
	}
	yieldPoint(-3, true)
	for !m.TryLock() {
		block(unsafe.Pointer(m))
	}
	setHolder(unsafe.Pointer(m), cur)
}

// RWUnlock replaces rw.Unlock().
//
//go:norace
func RWUnlock(m *sync.RWMutex) {
	if !active {
		m.Unlock()
		return
	}
	clearHolder(unsafe.Pointer(m))
	m.Unlock()
	wake(unsafe.Pointer(m))
	if aborted {
		return
	}
	yieldPoint(-4, true)
}

// RLock replaces rw.RLock().
//
//go:norace
func RLock(m *sync.RWMutex) {
	if !active {
		m.RLock()
		return
	}
	yieldPoint(-5, true)
	for !m.TryRLock() {
		block(unsafe.Pointer(m))
	}
}

// RUnlock replaces rw.RUnlock().
//
//go:norace
func RUnlock(m *sync.RWMutex) {
	if !active {
		m.RUnlock()
		return
	}
	m.RUnlock()
	wake(unsafe.Pointer(m))
	if aborted {
		return
	}
	yieldPoint(-6, true)
}

var counterfactual bool

// SetCounterfactual switches the counterfactual repairs of known findings on
// or off (see /verif/sim/cf_patch.py).  Off by default.
//
//go:norace
func SetCounterfactual(on bool) { counterfactual = on }

// Counterfactual reports whether counterfactual repairs are on.
//
//go:norace
func Counterfactual() bool { return counterfactual }

// ---------------------------------------------------------------- sync.Once --

// A task that calls (*sync.Once).Do while another task is parked inside the
// same Do would block inside the Go runtime with the baton in its hand.  Rule
// R1 therefore also rewrites o.Do(f) into simrt.OnceDo(&o, f): tasks that find
// the Once running are descheduled by the simulator until it has finished;
// the real Once is still used, so the race detector sees its ordering.

var onceTab [32]struct {
	o       *sync.Once
	running bool
	done    bool
}

//go:norace
func onceSlot(o *sync.Once) int {
	free := -1
	for i := range onceTab {
		if onceTab[i].o == o {
			return i
		}
		if onceTab[i].o == nil && free < 0 {
			free = i
		}
	}
	if free < 0 {
		free = 0
	}
	onceTab[free].o = o
	onceTab[free].running = false
	onceTab[free].done = false
	return free
}

//go:norace
func onceEnter(o *sync.Once) (run bool) {
	yieldPoint(-7, true)
	i := onceSlot(o)
	for onceTab[i].running {
		block(unsafe.Pointer(o))
		i = onceSlot(o)
	}
	if onceTab[i].done {
		return false
	}
	onceTab[i].running = true
	return true
}

//go:norace
func onceLeave(o *sync.Once) {
	i := onceSlot(o)
	onceTab[i].running = false
	onceTab[i].done = true
	wake(unsafe.Pointer(o))
}

// OnceDo replaces o.Do(f) in instrumented code.
func OnceDo(o *sync.Once, f func()) {
	if !Active() {
		o.Do(f)
		return
	}
	if onceEnter(o) {
		defer onceLeave(o)
		o.Do(f)
		return
	}
	o.Do(func() {})
}
