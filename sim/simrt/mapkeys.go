package simrt

import (
	"fmt"
	"reflect"
	"sort"
	"strconv"
	"text/template/parse"
)

//go:norace
func saltAndCount() uint64 {
	if active {
		stats.MapKeysHits++
	}
	return mapSalt
}

type keyEnt struct {
	h uint64
	s string
	v reflect.Value
}

type keyEnts []keyEnt

func (k keyEnts) Len() int      { return len(k) }
func (k keyEnts) Swap(i, j int) { k[i], k[j] = k[j], k[i] }
func (k keyEnts) Less(i, j int) bool {
	if k[i].h != k[j].h {
		return k[i].h < k[j].h
	}
	return k[i].s < k[j].s
}

func fnv(salt uint64, s string) uint64 {
	h := uint64(14695981039346656037) ^ salt*0x9e3779b97f4a7c15
	for i := 0; i < len(s); i++ {
		h ^= uint64(s[i])
		h *= 1099511628211
	}
	h ^= h >> 29
	h *= 0xbf58476d1ce4e5b9
	h ^= h >> 32
	return h
}

func keyString(v reflect.Value) string {
	switch v.Kind() {
	case reflect.String:
		return v.String()
	case reflect.Int, reflect.Int8, reflect.Int16, reflect.Int32, reflect.Int64:
		return strconv.FormatInt(v.Int(), 10)
	case reflect.Uint, reflect.Uint8, reflect.Uint16, reflect.Uint32, reflect.Uint64, reflect.Uintptr:
		return strconv.FormatUint(v.Uint(), 10)
	case reflect.Bool:
		return strconv.FormatBool(v.Bool())
	}
	if v.CanInterface() {
		if n, ok := v.Interface().(parse.Node); ok && !(v.Kind() == reflect.Ptr && v.IsNil()) {
			return fmt.Sprintf("%08d/%02d/%s", int(n.Position()), int(n.Type()), n.String())
		}
		return fmt.Sprintf("%T/%v", v.Interface(), v.Interface())
	}
	return v.String()
}

// MapKeys returns the keys of map m as a []K (K the map's key type) in an
// order that is a pure function of (salt, key set): keys are ordered by a
// salted hash of their printable form.  Pointer keys that print identically
// (copies of one parse node in different derived templates) keep Go's own
// order among themselves; the code under test treats them symmetrically.
func MapKeys(m interface{}) interface{} {
	salt := saltAndCount()
	rv := reflect.ValueOf(m)
	if rv.Kind() != reflect.Map {
		panic("simrt.MapKeys: not a map")
	}
	ks := rv.MapKeys()
	ents := make(keyEnts, len(ks))
	for i, k := range ks {
		s := keyString(k)
		ents[i] = keyEnt{fnv(salt, s), s, k}
	}
	sort.Stable(ents)
	// Keys that print identically (copies of one parse node in different
	// derived templates): order them by the printed form of their values, so
	// that the order is still a function of the map's contents.
	for i := 0; i < len(ents); {
		j := i + 1
		for j < len(ents) && ents[j].h == ents[i].h && ents[j].s == ents[i].s {
			j++
		}
		if j-i > 1 {
			tie := ents[i:j]
			vals := make(map[reflect.Value]string, len(tie))
			for _, e := range tie {
				vals[e.v] = fmt.Sprintf("%v", rv.MapIndex(e.v))
			}
			sort.SliceStable(tie, func(a, b int) bool { return vals[tie[a].v] < vals[tie[b].v] })
		}
		i = j
	}
	out := reflect.MakeSlice(reflect.SliceOf(rv.Type().Key()), len(ks), len(ks))
	for i := range ents {
		out.Index(i).Set(ents[i].v)
	}
	return out.Interface()
}
