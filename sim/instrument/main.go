// Command instrument rewrites one Go package in place (or into an overlay
// directory) so that the deterministic simulator owns its scheduling points.
// Rules R1–R5 of /verif/DESIGN.md §3.2.  All rewrites are textual edits at
// positions found with go/ast + go/types, so formatting, comments and build
// constraints of the original files survive.
package main

import (
	"encoding/json"
	"flag"
	"fmt"
	"go/ast"
	"go/token"
	"go/types"
	"os"
	"path/filepath"
	"sort"
	"strings"

	"golang.org/x/tools/go/packages"
)

type edit struct {
	off, del int
	ins      string
	ord      int
}

type site struct {
	ID   int    `json:"id"`
	Pos  string `json:"pos"`
	Func string `json:"func"`
	Kind string `json:"kind"`
}

type report struct {
	Package        string   `json:"package"`
	Mode           string   `json:"mode"`
	Locks          int      `json:"lock_ops"`
	MapRanges      int      `json:"map_ranges"`
	Yields         int      `json:"yield_sites"`
	EnvCalls       int      `json:"env_calls"`
	Unrewritten    []string `json:"unrewritten"`
	Unsupported    []string `json:"unsupported"`
	Files          []string `json:"files"`
	SeamFile       string   `json:"seam_file,omitempty"`
	Sites          []site   `json:"sites"`
	TrustedFSField string   `json:"trustedfs_field,omitempty"`
}

var (
	flagDir        = flag.String("dir", ".", "directory to run the go command in (module root of the copy)")
	flagPkg        = flag.String("pkg", "./template", "package pattern to instrument")
	flagMode       = flag.String("mode", "full", "full (R1-R5) | locks (R1,R4,R5) | seams (R4,R5)")
	flagStd        = flag.Bool("std", false, "standard-library flavour: call package-local Sim* hook variables instead of importing simrt")
	flagOut        = flag.String("out", "", "std flavour: directory to write instrumented copies to (originals untouched)")
	flagOverlay    = flag.String("overlay", "", "std flavour: overlay JSON file to write")
	flagBase       = flag.Int("sitebase", 0, "first site id")
	flagReport     = flag.String("report", "", "write a JSON report here")
	flagSimrt      = flag.String("simrt", "github.com/google/safehtml/simrt", "import path of simrt")
	flagTags       = flag.String("tags", "", "build tags")
	flagStmtYields = flag.Bool("stmtyields", true, "rule R6: also yield before statements that call or write shared-looking state")
	flagYieldFn    = flag.String("yieldfn", "Yield", "simrt function called at yield sites: Yield (scheduling point) or Tick (budget only)")
)

func fatal(f string, a ...interface{}) {
	fmt.Fprintf(os.Stderr, "instrument: "+f+"\n", a...)
	os.Exit(2)
}

func main() {
	flag.Parse()
	cfg := &packages.Config{
		Mode: packages.NeedName | packages.NeedFiles | packages.NeedCompiledGoFiles | packages.NeedSyntax |
			packages.NeedTypes | packages.NeedTypesInfo | packages.NeedImports | packages.NeedDeps,
		Dir: *flagDir,
		Env: append(os.Environ(), "GOFLAGS=-mod=mod", "GOPROXY=off", "GOSUMDB=off", "GOTOOLCHAIN=local"),
	}
	if *flagTags != "" {
		cfg.BuildFlags = []string{"-tags=" + *flagTags}
	}
	pkgs, err := packages.Load(cfg, *flagPkg)
	if err != nil {
		fatal("load: %v", err)
	}
	if len(pkgs) != 1 {
		fatal("expected one package, got %d", len(pkgs))
	}
	p := pkgs[0]
	if len(p.Errors) > 0 {
		for _, e := range p.Errors {
			fmt.Fprintln(os.Stderr, e)
		}
		fatal("package %s has errors", p.PkgPath)
	}
	rep := &report{Package: p.PkgPath, Mode: *flagMode}
	nextSite := *flagBase
	overlay := map[string]string{}

	// Deterministic file order.
	type fileEnt struct {
		name string
		f    *ast.File
	}
	var files []fileEnt
	for _, f := range p.Syntax {
		name := p.Fset.Position(f.Pos()).Filename
		files = append(files, fileEnt{name, f})
	}
	sort.Slice(files, func(i, j int) bool { return files[i].name < files[j].name })

	for _, fe := range files {
		base := filepath.Base(fe.name)
		if strings.HasSuffix(base, "_test.go") || strings.HasPrefix(base, "zz_") {
			continue
		}
		src, err := os.ReadFile(fe.name)
		if err != nil {
			fatal("%v", err)
		}
		r := &rewriter{p: p, f: fe.f, src: src, rep: rep, nextSite: &nextSite, fname: fe.name}
		r.run()
		out := r.apply()
		rep.Files = append(rep.Files, base)
		if *flagStd {
			if *flagOut == "" {
				fatal("-std needs -out")
			}
			dst := filepath.Join(*flagOut, base+".txt")
			if err := os.WriteFile(dst, out, 0o644); err != nil {
				fatal("%v", err)
			}
			overlay[fe.name] = dst
		} else {
			if err := os.WriteFile(fe.name, out, 0o644); err != nil {
				fatal("%v", err)
			}
		}
	}

	if *flagStd {
		// Hook variables, added to the package through the overlay.
		hook := stdHookFile(p.Name)
		dst := filepath.Join(*flagOut, "zz_simhook.go.txt")
		if err := os.WriteFile(dst, []byte(hook), 0o644); err != nil {
			fatal("%v", err)
		}
		dir := filepath.Dir(files[0].name)
		overlay[filepath.Join(dir, "zz_simhook.go")] = dst
		if *flagOverlay != "" {
			b, _ := json.MarshalIndent(map[string]interface{}{"Replace": overlay}, "", " ")
			if err := os.WriteFile(*flagOverlay, b, 0o644); err != nil {
				fatal("%v", err)
			}
		}
	} else {
		// R5: the seam file.
		if sf := seamFile(p, rep); sf != "" {
			dir := filepath.Dir(files[0].name)
			dst := filepath.Join(dir, "zz_verif_seams.go")
			if err := os.WriteFile(dst, []byte(sf), 0o644); err != nil {
				fatal("%v", err)
			}
			rep.SeamFile = dst
		}
	}
	if *flagReport != "" {
		b, _ := json.MarshalIndent(rep, "", " ")
		if err := os.WriteFile(*flagReport, b, 0o644); err != nil {
			fatal("%v", err)
		}
	}
	fmt.Printf("instrumented %s mode=%s locks=%d mapranges=%d yields=%d env=%d unrewritten=%d\n",
		p.PkgPath, *flagMode, rep.Locks, rep.MapRanges, rep.Yields, rep.EnvCalls, len(rep.Unrewritten))
	for _, u := range rep.Unsupported {
		fmt.Printf("UNSUPPORTED %s\n", u)
	}
}

func stdHookFile(pkg string) string {
	return `// Code generated by /verif/sim/instrument; hook variables for the simulator.
package ` + pkg + `

import (
	"reflect"
	"sync"
)

var (
	SimYield    = func(int) {}
	SimLock     = func(m *sync.Mutex) { m.Lock() }
	SimUnlock   = func(m *sync.Mutex) { m.Unlock() }
	SimRWLock   = func(m *sync.RWMutex) { m.Lock() }
	SimRWUnlock = func(m *sync.RWMutex) { m.Unlock() }
	SimRLock    = func(m *sync.RWMutex) { m.RLock() }
	SimRUnlock  = func(m *sync.RWMutex) { m.RUnlock() }
	SimMapKeys  = func(m interface{}) interface{} {
		rv := reflect.ValueOf(m)
		ks := rv.MapKeys()
		out := reflect.MakeSlice(reflect.SliceOf(rv.Type().Key()), len(ks), len(ks))
		for i, k := range ks {
			out.Index(i).Set(k)
		}
		return out.Interface()
	}
)
`
}

// seamFile generates template/zz_verif_seams.go (rule R5).
func seamFile(p *packages.Package, rep *report) string {
	obj := p.Types.Scope().Lookup("TrustedFS")
	if obj == nil {
		return ""
	}
	st, ok := obj.Type().Underlying().(*types.Struct)
	if !ok {
		return ""
	}
	field := ""
	for i := 0; i < st.NumFields(); i++ {
		f := st.Field(i)
		if named, ok := f.Type().(*types.Named); ok && named.Obj().Pkg() != nil &&
			named.Obj().Pkg().Path() == "io/fs" && named.Obj().Name() == "FS" {
			field = f.Name()
			break
		}
	}
	if field == "" {
		return ""
	}
	rep.TrustedFSField = field
	return `//go:build verif
// +build verif

// Code generated by /verif/sim/instrument (rule R5); exists only in the
// scratch copy used by the simulator.
package ` + p.Name + `

import "io/fs"

// TrustedFSForSimulation wraps an arbitrary (fault-injecting) fs.FS.
func TrustedFSForSimulation(fsys fs.FS) TrustedFS { return TrustedFS{` + field + `: fsys} }
`
}

type rewriter struct {
	p        *packages.Package
	f        *ast.File
	src      []byte
	fname    string
	rep      *report
	nextSite *int
	edits    []edit
	needImp  bool
	keepUse  map[string]bool // "ioutil.ReadFile" etc, to keep imports used
	okComm   [][2]token.Pos  // communications of selects that have a default clause
	funcName string
}

// nonBlocking: is pos inside the communication of a select that has a default?
func (r *rewriter) nonBlocking(pos token.Pos) bool {
	for _, rg := range r.okComm {
		if pos >= rg[0] && pos < rg[1] {
			return true
		}
	}
	return false
}

func (r *rewriter) off(p token.Pos) int { return r.p.Fset.Position(p).Offset }

func (r *rewriter) text(a, b token.Pos) string { return string(r.src[r.off(a):r.off(b)]) }

func (r *rewriter) add(off, del int, ins string) {
	r.edits = append(r.edits, edit{off, del, ins, len(r.edits)})
}

func (r *rewriter) hook(name string) string {
	if *flagStd {
		return "Sim" + name
	}
	r.needImp = true
	switch name {
	case "MapKeys", "Yield", "Tick", "OnceDo", "Lock", "Unlock", "RWLock", "RWUnlock", "RLock", "RUnlock", "ReadFile", "Glob", "DirFS":
		return "simrt." + name
	}
	panic(name)
}

func (r *rewriter) newSite(pos token.Pos, kind string) int {
	id := *r.nextSite
	*r.nextSite++
	ps := r.p.Fset.Position(pos)
	r.rep.Sites = append(r.rep.Sites, site{id, fmt.Sprintf("%s:%d", filepath.Base(ps.Filename), ps.Line), r.funcName, kind})
	return id
}

func (r *rewriter) yieldAt(lbrace token.Pos, kind string) {
	id := r.newSite(lbrace, kind)
	r.rep.Yields++
	r.add(r.off(lbrace)+1, 0, fmt.Sprintf(" %s(%d);", r.hook(*flagYieldFn), id))
}

func (r *rewriter) run() {
	mode := *flagMode
	doYields := mode == "full"
	doLocks := mode == "full" || mode == "locks"
	doMaps := mode == "full" && *flagYieldFn == "Yield"
	doEnv := !*flagStd
	r.keepUse = map[string]bool{}

	ast.Inspect(r.f, func(n ast.Node) bool {
		switch n := n.(type) {
		case *ast.FuncDecl:
			r.funcName = n.Name.Name
			if n.Recv != nil && len(n.Recv.List) == 1 {
				r.funcName = types.ExprString(n.Recv.List[0].Type) + "." + n.Name.Name
			}
			if n.Body != nil && doYields {
				r.yieldAt(n.Body.Lbrace, "func")
			}
		case *ast.FuncLit:
			if doYields {
				r.yieldAt(n.Body.Lbrace, "funclit")
			}
		case *ast.BlockStmt:
			if doYields && *flagStmtYields {
				r.stmtYields(n.List)
			}
		case *ast.CaseClause:
			if doYields && *flagStmtYields {
				r.stmtYields(n.Body)
			}
		case *ast.ForStmt:
			if doYields {
				r.yieldAt(n.Body.Lbrace, "for")
			}
		case *ast.RangeStmt:
			rewritten := false
			if doMaps {
				if t := r.p.TypesInfo.TypeOf(n.X); t != nil {
					if mt, ok := t.Underlying().(*types.Map); ok {
						rewritten = r.rewriteMapRange(n, mt)
					}
				}
			}
			_ = rewritten
			if doYields {
				r.yieldAt(n.Body.Lbrace, "range")
			}
		case *ast.GoStmt:
			r.rep.Unsupported = append(r.rep.Unsupported, r.p.Fset.Position(n.Pos()).String()+": go statement (the simulator owns every goroutine; library-started goroutines are not supported)")
		case *ast.SendStmt:
			if !r.nonBlocking(n.Pos()) {
				r.rep.Unsupported = append(r.rep.Unsupported, r.p.Fset.Position(n.Pos()).String()+": channel send (tasks would block inside the Go runtime)")
			}
		case *ast.UnaryExpr:
			if n.Op == token.ARROW && !r.nonBlocking(n.Pos()) {
				r.rep.Unsupported = append(r.rep.Unsupported, r.p.Fset.Position(n.Pos()).String()+": channel receive (tasks would block inside the Go runtime)")
			}
		case *ast.SelectStmt:
			// a select with a default clause never blocks: its communications
			// are fine (a buffered channel used as a free list, say)
			hasDefault := false
			for _, c := range n.Body.List {
				if cc, ok := c.(*ast.CommClause); ok && cc.Comm == nil {
					hasDefault = true
				}
			}
			if !hasDefault {
				r.rep.Unsupported = append(r.rep.Unsupported, r.p.Fset.Position(n.Pos()).String()+": select statement without default (blocks inside the Go runtime)")
			} else {
				for _, c := range n.Body.List {
					if cc, ok := c.(*ast.CommClause); ok && cc.Comm != nil {
						r.okComm = append(r.okComm, [2]token.Pos{cc.Comm.Pos(), cc.Comm.End()})
					}
				}
			}
		case *ast.CallExpr:
			if sel, ok := n.Fun.(*ast.SelectorExpr); ok {
				if s := r.p.TypesInfo.Selections[sel]; s != nil && s.Kind() == types.MethodVal {
					if fn, ok := s.Obj().(*types.Func); ok && fn.Pkg() != nil && fn.Pkg().Path() == "sync" {
						switch fn.FullName() {
						case "(*sync.WaitGroup).Wait", "(*sync.Cond).Wait":
							r.rep.Unsupported = append(r.rep.Unsupported, r.p.Fset.Position(n.Pos()).String()+": "+fn.FullName()+" (blocks inside the Go runtime)")
						}
					}
				}
			}
			if doLocks {
				r.rewriteLock(n)
			}
			if doEnv {
				r.rewriteEnv(n)
			}
		}
		return true
	})
}

// stmtYields (rule R6) puts a scheduling point in front of every statement
// that calls something or writes through a selector, index or pointer: the
// windows between two such statements are where check-then-act and
// publish-before-ready mistakes live.  The first statement of a function body
// already has the function-entry yield.
func (r *rewriter) stmtYields(list []ast.Stmt) {
	for i, st := range list {
		if i == 0 {
			continue
		}
		if !r.interesting(st) {
			continue
		}
		id := r.newSite(st.Pos(), "stmt")
		r.rep.Yields++
		r.add(r.off(st.Pos()), 0, fmt.Sprintf("%s(%d); ", r.hook(*flagYieldFn), id))
	}
}

func (r *rewriter) interesting(st ast.Stmt) bool {
	switch s := st.(type) {
	case *ast.ExprStmt:
		_, ok := s.X.(*ast.CallExpr)
		return ok
	case *ast.AssignStmt:
		for _, l := range s.Lhs {
			switch l.(type) {
			case *ast.SelectorExpr, *ast.IndexExpr, *ast.StarExpr:
				return true
			}
		}
		for _, x := range s.Rhs {
			if hasCall(x) {
				return true
			}
		}
		return false
	case *ast.IncDecStmt:
		switch s.X.(type) {
		case *ast.SelectorExpr, *ast.IndexExpr, *ast.StarExpr:
			return true
		}
		return false
	case *ast.ReturnStmt:
		for _, x := range s.Results {
			if hasCall(x) {
				return true
			}
		}
		return false
	case *ast.IfStmt:
		return s.Init == nil && hasCall(s.Cond) || s.Init != nil
	case *ast.DeferStmt, *ast.GoStmt:
		return true
	}
	return false
}

func hasCall(e ast.Expr) bool {
	found := false
	ast.Inspect(e, func(n ast.Node) bool {
		if _, ok := n.(*ast.CallExpr); ok {
			found = true
		}
		if _, ok := n.(*ast.FuncLit); ok {
			return false
		}
		return !found
	})
	return found
}

func pureExpr(e ast.Expr) bool {
	switch e := e.(type) {
	case *ast.Ident:
		return true
	case *ast.SelectorExpr:
		return pureExpr(e.X)
	case *ast.StarExpr:
		return pureExpr(e.X)
	case *ast.ParenExpr:
		return pureExpr(e.X)
	case *ast.IndexExpr:
		return pureExpr(e.X) && pureExpr(e.Index)
	case *ast.BasicLit:
		return true
	}
	return false
}

func (r *rewriter) qualifier() types.Qualifier {
	imports := map[string]string{}
	for _, is := range r.f.Imports {
		path := strings.Trim(is.Path.Value, `"`)
		name := ""
		if is.Name != nil {
			name = is.Name.Name
		} else if ip := r.p.Imports[path]; ip != nil {
			name = ip.Name
		} else {
			name = filepath.Base(path)
		}
		imports[path] = name
	}
	return func(pk *types.Package) string {
		if pk == r.p.Types {
			return ""
		}
		if n, ok := imports[pk.Path()]; ok {
			return n
		}
		return "\x00missing:" + pk.Path()
	}
}

func (r *rewriter) rewriteMapRange(n *ast.RangeStmt, mt *types.Map) bool {
	where := r.p.Fset.Position(n.Pos()).String()
	if !pureExpr(n.X) {
		r.rep.Unrewritten = append(r.rep.Unrewritten, where+": range over map expression with possible side effects")
		return false
	}
	kt := types.TypeString(mt.Key(), r.qualifier())
	if strings.Contains(kt, "\x00missing:") {
		r.rep.Unrewritten = append(r.rep.Unrewritten, where+": key type's package not imported in this file")
		return false
	}
	site := *r.nextSite // only used to make names unique
	mexpr := r.text(n.X.Pos(), n.X.End())
	keyName, valName := "", ""
	if n.Key != nil {
		keyName = r.text(n.Key.Pos(), n.Key.End())
	}
	if n.Value != nil {
		valName = r.text(n.Value.Pos(), n.Value.End())
	}
	tmpK := fmt.Sprintf("simk%d", site)
	tmpOK := fmt.Sprintf("simok%d", site)
	keys := fmt.Sprintf("%s(%s).([]%s)", r.hook("MapKeys"), mexpr, kt)
	var hdr, pro string
	define := n.Tok == token.DEFINE
	switch {
	case n.Key == nil || n.Tok == token.ILLEGAL:
		hdr = fmt.Sprintf("for _, %s := range %s {", tmpK, keys)
		pro = fmt.Sprintf(" if _, %s := %s[%s]; !%s { continue };", tmpOK, mexpr, tmpK, tmpOK)
	case define:
		k := keyName
		if k == "_" {
			k = tmpK
		}
		hdr = fmt.Sprintf("for _, %s := range %s {", k, keys)
		if valName == "" || valName == "_" {
			pro = fmt.Sprintf(" if _, %s := %s[%s]; !%s { continue };", tmpOK, mexpr, k, tmpOK)
		} else {
			pro = fmt.Sprintf(" %s, %s := %s[%s]; if !%s { continue };", valName, tmpOK, mexpr, k, tmpOK)
		}
	default: // assignment form
		hdr = fmt.Sprintf("for _, %s := range %s {", tmpK, keys)
		pro = fmt.Sprintf(" if _, %s := %s[%s]; !%s { continue };", tmpOK, mexpr, tmpK, tmpOK)
		if keyName != "" && keyName != "_" {
			pro += fmt.Sprintf(" %s = %s;", keyName, tmpK)
		}
		if valName != "" && valName != "_" {
			pro += fmt.Sprintf(" %s = %s[%s];", valName, mexpr, tmpK)
		}
	}
	start := r.off(n.For)
	end := r.off(n.Body.Lbrace) + 1
	r.add(start, end-start, hdr+pro)
	r.rep.MapRanges++
	return true
}

func (r *rewriter) rewriteLock(c *ast.CallExpr) {
	sel, ok := c.Fun.(*ast.SelectorExpr)
	if !ok {
		return
	}
	s := r.p.TypesInfo.Selections[sel]
	if s == nil || s.Kind() != types.MethodVal {
		return
	}
	fn, ok := s.Obj().(*types.Func)
	if !ok || fn.Pkg() == nil || fn.Pkg().Path() != "sync" {
		return
	}
	recv := fn.Type().(*types.Signature).Recv().Type()
	if p, ok := recv.(*types.Pointer); ok {
		recv = p.Elem()
	}
	named, ok := recv.(*types.Named)
	if !ok {
		return
	}
	if named.Obj().Name() == "Once" && fn.Name() == "Do" && len(c.Args) == 1 {
		// handled below (one argument)
	} else if len(c.Args) != 0 {
		return
	}
	var hook string
	switch named.Obj().Name() + "." + fn.Name() {
	case "Once.Do":
		hook = "OnceDo"
	case "Mutex.Lock":
		hook = "Lock"
	case "Mutex.Unlock":
		hook = "Unlock"
	case "RWMutex.Lock":
		hook = "RWLock"
	case "RWMutex.Unlock":
		hook = "RWUnlock"
	case "RWMutex.RLock":
		hook = "RLock"
	case "RWMutex.RUnlock":
		hook = "RUnlock"
	default:
		return
	}
	where := r.p.Fset.Position(c.Pos()).String()
	if len(s.Index()) != 1 {
		r.rep.Unrewritten = append(r.rep.Unrewritten, where+": lock method promoted through embedding")
		return
	}
	xt := r.p.TypesInfo.TypeOf(sel.X)
	x := r.text(sel.X.Pos(), sel.X.End())
	arg := "&(" + x + ")"
	if _, isPtr := xt.Underlying().(*types.Pointer); isPtr {
		arg = x
	}
	if hook == "OnceDo" {
		// keep the argument text; only the callee changes
		r.add(r.off(c.Pos()), r.off(c.Lparen)+1-r.off(c.Pos()), fmt.Sprintf("%s(%s, ", r.hook(hook), arg))
		r.rep.Locks++
		return
	}
	start, end := r.off(c.Pos()), r.off(c.End())
	r.add(start, end-start, fmt.Sprintf("%s(%s)", r.hook(hook), arg))
	r.rep.Locks++
}

func (r *rewriter) rewriteEnv(c *ast.CallExpr) {
	sel, ok := c.Fun.(*ast.SelectorExpr)
	if !ok {
		return
	}
	id, ok := sel.X.(*ast.Ident)
	if !ok {
		return
	}
	pn, ok := r.p.TypesInfo.Uses[id].(*types.PkgName)
	if !ok {
		return
	}
	var hook string
	switch pn.Imported().Path() + "." + sel.Sel.Name {
	case "io/ioutil.ReadFile", "os.ReadFile":
		hook = "ReadFile"
	case "path/filepath.Glob":
		hook = "Glob"
	case "os.DirFS":
		hook = "DirFS"
	default:
		return
	}
	start, end := r.off(sel.Pos()), r.off(sel.End())
	r.add(start, end-start, r.hook(hook))
	r.keepUse[id.Name+"."+sel.Sel.Name] = true
	r.rep.EnvCalls++
}

func (r *rewriter) apply() []byte {
	if len(r.edits) == 0 {
		return r.src
	}
	if r.needImp {
		off := r.off(r.f.Name.End())
		r.edits = append(r.edits, edit{off, 0, fmt.Sprintf("; import simrt %q", *flagSimrt), -1})
	}
	sort.SliceStable(r.edits, func(i, j int) bool {
		if r.edits[i].off != r.edits[j].off {
			return r.edits[i].off < r.edits[j].off
		}
		// a replacement that starts here goes before a pure insertion here
		return r.edits[i].ord < r.edits[j].ord
	})
	var out []byte
	pos := 0
	for _, e := range r.edits {
		if e.off < pos {
			fatal("%s: overlapping edits at offset %d", r.fname, e.off)
		}
		out = append(out, r.src[pos:e.off]...)
		out = append(out, e.ins...)
		pos = e.off + e.del
	}
	out = append(out, r.src[pos:]...)
	var keep []string
	for k := range r.keepUse {
		keep = append(keep, k)
	}
	sort.Strings(keep)
	for _, k := range keep {
		out = append(out, fmt.Sprintf("\nvar _ = %s\n", k)...)
	}
	return out
}
