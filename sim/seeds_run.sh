#!/bin/bash
# Re-runs every kept seeded change (seeded/*/patch.diff) against the current /repo HEAD:
# apply to a scratch worktree, pinned suite must pass, the property's quick check must exit 1.
# usage: sim/seeds_run.sh [tier] [seed]     (run it from a snapshot: it overwrites evidence/ with mutant runs)
export GOFLAGS=-mod=mod GOPROXY=off GOSUMDB=off GOTOOLCHAIN=local
VERIF=$(cd "$(dirname "$0")/.." && pwd)
TIER=${1:-quick}; SEED=${2:-1}
for d in "$VERIF"/seeded/*/; do
  id=$(basename "$d"); prop=$(python3 -c "import json;print(json.load(open('$d/meta.json'))['property'])")
  wt=/tmp/seedrun-$id
  git -C /repo worktree remove --force $wt >/dev/null 2>&1; rm -rf $wt
  git -C /repo worktree add --detach $wt HEAD >/dev/null 2>&1
  if ! (cd $wt && git apply "$d/patch.diff" 2>/dev/null); then echo "$id patch-does-not-apply"; git -C /repo worktree remove --force $wt; continue; fi
  if ! (cd $wt && go build ./... && go test -vet=off -count=1 ./... >/dev/null 2>&1); then echo "$id suite-fails"; git -C /repo worktree remove --force $wt; continue; fi
  out=$(cd "$VERIF" && VERIF_REPO=$wt VERIF_SEED=$SEED ./check $prop $TIER 2>&1); rc=$?
  cls=$(echo "$out" | grep "^violation class=" | sed 's/violation class=\([^ ]*\).*/\1/' | sort -u | tr '\n' ',')
  if [ $rc -eq 1 ]; then v=CAUGHT; elif [ $rc -eq 0 ]; then v=missed; else v="infra($rc)"; fi
  echo "$id $prop $v $cls"
  git -C /repo worktree remove --force $wt >/dev/null 2>&1; rm -rf $wt
  rm -f "$VERIF"/replays/*.json
done
