#!/bin/bash
# developer helper: (re)build the harness in /tmp/vscratch against an instrumented copy of /repo
set -e
export GOFLAGS=-mod=mod GOPROXY=off GOSUMDB=off GOTOOLCHAIN=local
S=${S:-/tmp/vscratch}
if [ "$1" = "full" ] || [ ! -d $S/safehtml ]; then
  rm -rf $S; mkdir -p $S/safehtml $S/ov
  rsync -a --exclude .git /repo/ $S/safehtml/
  cp -r /verif/sim/simrt $S/safehtml/simrt
  python3 /verif/sim/cf_patch.py $S/safehtml
  (cd $S/safehtml && /verif/bin/instrument -dir . -pkg ./template -tags verif -report $S/rep.json && /verif/bin/instrument -dir . -pkg . -tags verif -yieldfn Tick -sitebase 20000 && /verif/bin/instrument -dir . -pkg ./internal/safehtmlutil -tags verif -yieldfn Tick -sitebase 30000 && /verif/bin/instrument -dir . -pkg text/template -std -out $S/ov -overlay $S/overlay.json -sitebase 100000 -report $S/rep2.json)
fi
rm -rf $S/safehtml/simrt; cp -r /verif/sim/simrt $S/safehtml/simrt
mkdir -p $S/harness; rm -f $S/harness/*.go; cp /verif/sim/harness/*.go $S/harness/
sed "s#@SAFEHTML@#$S/safehtml#" /verif/sim/harness/go.mod.tmpl > $S/harness/go.mod; cp /repo/go.sum $S/harness/go.sum
cd $S/harness && go build -tags verif -overlay $S/overlay.json -o $S/simharness .
if [ "$2" = "race" ]; then
  python3 - <<PY
import json
o=json.load(open("$S/overlay.json"))
o["Replace"]["/usr/lib/go-1.23/src/sync/pool.go"]="$S/ov/pool.go.txt"
json.dump(o,open("$S/overlay_race.json","w"))
PY
  sed 's/if runtime_randn(4) == 0 {/if runtime_randn(4) >= 0 {/' /usr/lib/go-1.23/src/sync/pool.go > $S/ov/pool.go.txt
  go build -race -tags verif -overlay $S/overlay_race.json -o $S/simharness.race .
fi
