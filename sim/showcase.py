#!/usr/bin/env python3
import json,sys
for f in sys.argv[1:]:
    c=json.load(open(f))
    print('==',f)
    if c.get('disk'): print('  DISK',c['disk'])
    for o in c['defs']: print('  DEF',o['id'],o['kind'],'set',o['set'],'recv=%r'%o.get('recv',''),'name=%r'%o.get('name',''),repr(o.get('text','')),o.get('files',''),o.get('const',''))
    for i,t in enumerate(c['tasks']):
      for o in t: print('  T%d OP'%i,o['id'],o['kind'],'set',o['set'],'recv=%r'%o.get('recv',''),'name=%r'%o.get('name',''),repr(o.get('text','')),o.get('files',''),o.get('const',''), 'newset=%s'%o.get('newset','') )
    print('  faults',c.get('faults'),'switches',len(c.get('switches') or []))
    e=c.get('expect')
    if e: print('  EXPECT',e['class'],e['sig'],e['detail'][:600])
