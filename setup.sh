#!/bin/bash
# Builds the framework from files on disk only (offline).  "./setup.sh build" skips the self-tests.
set -e
VERIF=$(cd "$(dirname "$0")" && pwd)
export GOFLAGS=-mod=mod GOPROXY=off GOSUMDB=off GOTOOLCHAIN=local
GOROOT=$(go env GOROOT)
mkdir -p "$VERIF/bin" "$VERIF/build/overlay"
(cd "$VERIF/sim/instrument" && go build -o "$VERIF/bin/instrument" .)
# Instrumented GOROOT text/template (build overlay).  Needs a module to run "go list" in: use a throw-away copy of simrt's parent.
T=$(mktemp -d "${TMPDIR:-/tmp}/verif-setup-XXXXXX"); trap 'rm -rf "$T"' EXIT
mkdir -p "$T/m"; printf 'module scratch\n\ngo 1.16\n' > "$T/m/go.mod"
rm -f "$VERIF"/build/overlay/*.txt
(cd "$T/m" && "$VERIF/bin/instrument" -dir . -pkg text/template -std -out "$VERIF/build/overlay" -overlay "$VERIF/build/overlay/overlay.json" -sitebase 100000 -report "$VERIF/build/overlay/report.json")
# race builds: sync.Pool pinned to "always drop" (DESIGN §3.4)
sed 's/if runtime_randn(4) == 0 {/if runtime_randn(4) >= 0 {/' "$GOROOT/src/sync/pool.go" > "$VERIF/build/overlay/pool.go.txt"
grep -q 'runtime_randn(4) >= 0' "$VERIF/build/overlay/pool.go.txt" || { echo "setup: sync/pool.go does not have the expected shape" >&2; exit 2; }
python3 - "$VERIF/build/overlay" "$GOROOT" <<'PY'
import json,sys
d,goroot=sys.argv[1],sys.argv[2]
o=json.load(open(d+"/overlay.json"))
o["Replace"][goroot+"/src/sync/pool.go"]=d+"/pool.go.txt"
json.dump(o,open(d+"/overlay_race.json","w"),indent=1)
PY
[ "${1:-}" = build ] && exit 0
# warm the build cache (plain and race std) and run the self-tests
"$VERIF/selftest.sh"
