#!/bin/bash
# Self-tests of the machinery (run by setup.sh; also usable on their own):
#  1. the pinned suite passes on the instrumented copy with no simulator attached
#  2. race-detector transparency: clean workload and locked toy give 0 reports, racy toy is reported
#  3. determinism: record run == replay run, and identical logs across processes / GOMAXPROCS / builds
set -e
VERIF=$(cd "$(dirname "$0")" && pwd)
REPO=${VERIF_REPO:-/repo}
N=${SELFTEST_RUNS:-40}
export GOFLAGS=-mod=mod GOPROXY=off GOSUMDB=off GOTOOLCHAIN=local
S=$(mktemp -d "${TMPDIR:-/tmp}/verif-self-XXXXXX"); trap 'rm -rf "$S"' EXIT
mkdir -p "$S/safehtml" "$S/harness"; rsync -a --exclude .git "$REPO/" "$S/safehtml/"; cp -r "$VERIF/sim/simrt" "$S/safehtml/simrt"
python3 "$VERIF/sim/cf_patch.py" "$S/safehtml" >/dev/null
(cd "$S/safehtml" && "$VERIF/bin/instrument" -dir . -pkg ./template -tags verif >/dev/null && "$VERIF/bin/instrument" -dir . -pkg . -tags verif -yieldfn Tick -sitebase 20000 >/dev/null && "$VERIF/bin/instrument" -dir . -pkg ./internal/safehtmlutil -tags verif -yieldfn Tick -sitebase 30000 >/dev/null)
echo "selftest 1: pinned suite on the instrumented copy (no simulator attached)"
(cd "$S/safehtml" && go test -trimpath -tags verif -overlay "$VERIF/build/overlay/overlay.json" -vet=off -count=1 ./... 2>&1 | grep -v "no test files")
cp "$VERIF"/sim/harness/*.go "$S/harness/"; sed "s#@SAFEHTML@#$S/safehtml#" "$VERIF/sim/harness/go.mod.tmpl" > "$S/harness/go.mod"; cp "$REPO/go.sum" "$S/harness/go.sum"
(cd "$S/harness" && go build -trimpath -tags verif -overlay "$VERIF/build/overlay/overlay.json" -o "$S/simharness" . && go build -race -trimpath -tags verif -overlay "$VERIF/build/overlay/overlay_race.json" -o "$S/simharness.race" .)
echo "selftest 2: race-detector transparency"
GORACE="halt_on_error=0 exitcode=0 log_path=$S/race.toy" "$S/simharness.race" -selftest racetoy
echo "selftest 3: determinism ($N runs per property; GOMAXPROCS 1, 4, 16; race build for C09)"
for p in C05 C06 C07 C08 C09; do
  for g in 1 4 16; do
    GOMAXPROCS=$g "$S/simharness" -selftest determinism -prop $p -from 0 -to $N > "$S/det.$p.$g" || { echo "selftest: record/replay mismatch for $p (GOMAXPROCS=$g)"; grep MISMATCH "$S/det.$p.$g" | head -5; exit 2; }
  done
  cmp -s "$S/det.$p.1" "$S/det.$p.4" && cmp -s "$S/det.$p.1" "$S/det.$p.16" || { echo "selftest: event logs of $p differ between processes"; diff "$S/det.$p.1" "$S/det.$p.16" | head -5; exit 2; }
done
GOMAXPROCS=4 GORACE="halt_on_error=0 exitcode=0 log_path=$S/race.det" "$S/simharness.race" -selftest determinism -prop C09 -from 0 -to $N > "$S/det.C09.race" || { echo "selftest: race build record/replay mismatch"; exit 2; }
cmp -s "$S/det.C09.1" "$S/det.C09.race" || { echo "selftest: race build and plain build disagree on C09 event logs"; diff "$S/det.C09.1" "$S/det.C09.race" | head -5; exit 2; }
echo "selftest: all passed"
