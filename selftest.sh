#!/bin/bash
# Self-tests of the machinery (run by setup.sh): the pinned suite on the instrumented copy.
set -e
VERIF=$(cd "$(dirname "$0")" && pwd)
export GOFLAGS=-mod=mod GOPROXY=off GOSUMDB=off GOTOOLCHAIN=local
S=$(mktemp -d "${TMPDIR:-/tmp}/verif-self-XXXXXX"); trap 'rm -rf "$S"' EXIT
mkdir -p "$S/safehtml"; rsync -a --exclude .git /repo/ "$S/safehtml/"; cp -r "$VERIF/sim/simrt" "$S/safehtml/simrt"
(cd "$S/safehtml" && "$VERIF/bin/instrument" -dir . -pkg ./template >/dev/null)
echo "selftest: pinned suite on the instrumented copy (no simulator attached)"
(cd "$S/safehtml" && go test -trimpath -tags verif -overlay "$VERIF/build/overlay/overlay.json" -vet=off -count=1 ./... 2>&1 | grep -v "no test files")
